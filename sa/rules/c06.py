"""C06 - counter measurements are conserved across readers, temporalities and threads (structural part)."""
from ..ir import AnalysisBroken, strip_targs, qmatch
from ..graph import Graph
from ..expr import access_path, path_str, held_locks, reaching_defs, norm_cond, origins, leaves, defs_in_node
from .common import strip_casts, short, comparison, FLIP, member_funcs, subtree_through_locals

UNITS = ['sdk/src/metrics/state/temporal_metric_storage.cc', 'sdk/src/metrics/state/sync_metric_storage.cc',
         'sdk/src/metrics/aggregation/sum_aggregation.cc', 'sdk/src/metrics/meter.cc',
         'sdk/src/metrics/state/metric_collector.cc', 'sdk/src/metrics/sync_instruments.cc', 'sdk/src/metrics/meter_context.cc', 'sdk/src/metrics/state/filtered_ordered_attribute_map.cc']
DRIVERS = ['metrics_headers.cc']
CANARIES = ['c06_canary.cc']

EXPLANATION = (
    'C06.R1 (lock-field association): SyncMetricStorage touches its attributes table, and aggregates into the aggregation it '
    'looked up there, only while holding the table lock (a Collect that swaps the table between lookup and Aggregate loses the '
    'measurement); TemporalMetricStorage touches its two stashes only under its lock; the sum aggregations update their point '
    'under their lock. C06.R2 (forwarding): every Add/Record overload of the synchronous instruments forwards value, attributes '
    'and context to the storage call of the matching value type on the path where a storage exists; the multi storage forwards '
    'to every storage. C06.R3 (fan-out to readers): in buildMetrics a non-empty delta is appended to the stash of every collector '
    '(loop without early exit); a callback is either behind the single-collector delta edge or after the own-stash lookup; a '
    'return without callback is only behind the single-collector edge with an empty delta or the missing-stash edge. C06.R4 '
    '(abutting delta intervals): a delta start time must depend on per-collector state; the per-collector timestamp that feeds '
    'it is read before the entry is overwritten. C06.R5 (nothing replaced in the registry): a write to the storage registry '
    'inside a per-view callback must use a key depending on the view. C06.R6 (siblings): Sum Merge adds the two values, Diff is '
    'next - this. C06.R7 (fan-in): MetricCollector::Produce hands ForEachMeter a callback that returns true on every exit, ForEachMeter '
    'calls it for every meter (the loop is left only when the callback says stop), Meter::Collect collects every registered storage.')
EXPLANATION += " C06.R3 also requires that the map stored as the reader's reported state is, on every path, the one the reader's unreported list was merged into (never re-assigned); C06.R4 that every report on the stash path is preceded by storing the current collection time for the reader."
ROUND2_EXPLANATION = (' C06.R8: MetricCollector::GetAggregationTemporality asks the reader with the instrument-type parameter on every path and writes no member. C06.R9: every callback of buildMetrics that stores into the merged map looks the attribute set up first and overwrites only with a value built from the found aggregation. Shared C08.R1: series-key equality compares contents.')
ROUND2_EXPLANATION += (" C06.R10 (TemporalMetricStorage::buildMetrics): every MetricData handed to the reader callback has descriptor, temporality (the collector's answer, or the literal behind the equality test of that answer), start time and end time (the collection timestamp parameter) assigned on every path, and every point appended to it has attributes and data; the collector's unreported stash is moved out / erased before every report that follows its lookup; the walk that folds the last reported state into the result lies behind the outcome 'temporality == cumulative'.")
EXPLANATION += ROUND2_EXPLANATION
NOT_DECIDED = 'exact conservation of sums over arbitrary histories and races (arithmetic), cumulative totals over time.'


def _lock_ok(held, p, fields):
    return any(l in ('this.' + f for f in fields) for l in held.get(p.id, ()))


def rule_r1_sync(ck, prog, rule='C06.R1', cls='sdk::metrics::SyncMetricStorage', table='attributes_hashmap_', only_methods=None):
    rec = prog.record(cls)
    mutexes = [fd['name'] for fd in rec['fields'] if 'Mutex' in fd['t'] or 'mutex' in fd['t']]
    cnt = 0
    for f in sorted([x for x in prog.funcs.values() if x.cls == rec['qn'] and x.kind not in ('ctor', 'dtor') and not x.d.get('lambda')], key=lambda x: x.line):
        if only_methods and f.name not in only_methods:
            continue
        g = Graph(prog, f, inline=None, sync_lambdas=True)
        held = held_locks(g)
        acc = [p for p in g.points if p.n is not None and p.n['k'] == 'member' and access_path(p.f, p.n['i'], p.ctx) == ('this', table)]
        if not acc:
            continue
        cnt += 1
        site = '%s(%s)' % (f.name, ','.join(p['t'].rsplit('::', 1)[-1][:18] for p in f.params[:2]))
        unl = [p for p in acc if not _lock_ok(held, p, mutexes)]
        ck.verdict(not unl, rule, f, site + ':table-locked', (unl or acc)[0].n, 'table touched only under %s' % mutexes[0] if not unl else
                   'the attributes table is touched without %s: it races with Collect swapping the table' % mutexes[0])
        aggs = [p for p in g.points if p.n is not None and p.n['k'] == 'call' and p.n.get('virt') and strip_targs(p.n.get('c', '')).endswith('Aggregation::Aggregate')]
        if aggs:
            unl = [p for p in aggs if not _lock_ok(held, p, mutexes)]
            ck.verdict(not unl, rule, f, site + ':aggregate-locked', (unl or aggs)[0].n, 'Aggregate runs under the table lock' if not unl else
                       'Aggregate is called after the table lock was released: a collector that swaps the table in between reports the point without this measurement (lost for that reader, written into a retired table)')
    return cnt


def rule_r1_fields(ck, prog, cls, fields, rule='C06.R1'):
    rec = prog.record(cls)
    mutexes = [fd['name'] for fd in rec['fields'] if 'Mutex' in fd['t'] or 'mutex' in fd['t']]
    for f in sorted([x for x in prog.funcs.values() if x.cls == rec['qn'] and x.kind not in ('ctor', 'dtor') and not x.d.get('lambda')], key=lambda x: x.line):
        g = Graph(prog, f, inline=None, sync_lambdas=True)
        held = held_locks(g)
        acc = [p for p in g.points if p.n is not None and p.n['k'] == 'member' and len(access_path(p.f, p.n['i'], p.ctx)) >= 2 and
               access_path(p.f, p.n['i'], p.ctx)[0] == 'this' and access_path(p.f, p.n['i'], p.ctx)[1] in fields]
        # only maximal access paths count (point_data_ as the base of point_data_.value_ is the same access)
        pm = f.parent_map()
        acc = [p for p in acc if not (p.n['i'] in pm and f.nodes[pm[p.n['i']]]['k'] == 'member' and f.nodes[pm[p.n['i']]].get('base') == p.n['i'])]
        # reads of a member that is never written after construction are exempt (named exception: is_monotonic_)
        acc = [p for p in acc if access_path(p.f, p.n['i'], p.ctx)[-1] != 'is_monotonic_']
        if not acc:
            continue
        unl = [p for p in acc if not _lock_ok(held, p, mutexes)]
        site = '%s:%s-locked' % (f.name, fields[0])
        ck.verdict(not unl, rule, f, site, (unl or acc)[0].n, '%d accesses under %s' % (len(acc), mutexes[0]) if not unl else
                   '%s is accessed without %s' % (path_str(access_path(unl[0].f, unl[0].n['i'], unl[0].ctx)), mutexes[0]))


def rule_r2(ck, prog, rule='C06.R2'):
    cnt = 0
    for cname in ('LongCounter', 'DoubleCounter', 'LongUpDownCounter', 'DoubleUpDownCounter', 'LongHistogram', 'DoubleHistogram'):
        rec = prog.record('sdk::metrics::' + cname)
        want = 'RecordLong' if cname.startswith('Long') else 'RecordDouble'
        for f in sorted([x for x in prog.funcs.values() if x.cls == rec['qn'] and x.name in ('Add', 'Record')], key=lambda x: x.line):
            cnt += 1
            site = '%s(%d params)' % (f.name, len(f.params))
            g = Graph(prog, f, inline=None, sync_lambdas=False)
            recs = [p for p in g.points if p.n is not None and p.n['k'] == 'call' and p.n.get('virt') and
                    strip_targs(p.n.get('c', '')).rsplit('::', 1)[-1] in ('RecordLong', 'RecordDouble')]
            if len(recs) != 1 or strip_targs(recs[0].n['c']).rsplit('::', 1)[-1] != want:
                ck.violation(rule, f, site, recs[0].n if recs else None, '%s::%s does not forward to exactly one storage %s call' % (cname, f.name, want))
                continue
            call = recs[0].n
            passed = set()
            for a in call.get('args', []):
                for i in f.subtree(a):
                    if f.nodes[i]['k'] == 'ref' and f.nodes[i].get('sk') == 'param':
                        passed.add(f.nodes[i]['id'])
            missing = [p['name'] for p in f.params if p['id'] not in passed]
            first = strip_casts(f, call['args'][0]).get('id') == f.params[0]['id']
            ck.verdict(not missing and first, rule, f, site, call, 'value%s forwarded' % (', attributes, context' if len(f.params) > 1 else '') if not missing and first else
                       '%s::%s drops %s on the way to the storage' % (cname, f.name, ', '.join(missing) or 'the value (first argument is not the value)'))
    # multi storage forwards to every storage
    rec = prog.record('sdk::metrics::SyncMultiMetricStorage')
    for f in sorted([x for x in prog.funcs.values() if x.cls == rec['qn'] and x.name in ('RecordLong', 'RecordDouble')], key=lambda x: x.line):
        cnt += 1
        from .common import loops_over, loop_visits_every_element
        lists = [fd['name'] for fd in rec['fields'] if 'vector<' in fd['t'] or 'list<' in fd['t']]
        loops = loops_over(f, lambda ap: len(ap) == 2 and ap[0] == 'this' and ap[1] in lists)
        ok = len(loops) == 1
        if ok:
            gm = Graph(prog, f, inline=None, sync_lambdas=False)
            body = set(f.subtree(loops[0]['body']))
            cps = [p for p in gm.points if p.n is not None and p.n['i'] in body and p.n['k'] == 'call' and p.n.get('virt') and
                   strip_targs(p.n.get('c', '')).rsplit('::', 1)[-1] == f.name]
            ok = len(cps) == 1 and loop_visits_every_element(gm, f, loops[0], cps) is None and len(cps[0].n.get('args', [])) == len(f.params) and \
                all(strip_casts(f, a).get('id') == p['id'] for a, p in zip(cps[0].n['args'], f.params))
        ck.verdict(ok, rule, f, 'multi:%s(%d params)' % (f.name, len(f.params)), loops[0] if loops else None,
                   'every storage receives the measurement' if ok else 'the multi storage does not forward the measurement unchanged to every storage (view streams lose data)')
    return cnt


def build_metrics_rules(ck, prog, rule3='C06.R3', rule4='C06.R4', fname='sdk::metrics::TemporalMetricStorage::buildMetrics'):
    f = prog.function(fname)
    g = Graph(prog, f, inline=None, sync_lambdas=True)
    rd = reaching_defs(g)
    pn = {p['name']: p for p in f.params}
    collectors = [p for p in f.params if 'span<' in p['t']]
    if not collectors:
        raise AnalysisBroken('buildMetrics: collectors parameter not found')
    cols = collectors[0]
    cbp = [p for p in f.params if 'function_ref' in p['t']][0]
    callbacks = [p for p in g.points if p.n is not None and p.n['k'] == 'call' and p.ctx is g.root_ctx and
                 ((p.n.get('obj') is not None and strip_casts(f, p.n['obj']).get('id') == cbp['id']) or
                  (p.n.get('fx') is not None and strip_casts(f, p.n['fx']).get('id') == cbp['id']))]
    if not callbacks:
        raise AnalysisBroken('buildMetrics: callback invocation not found')

    def single_edge(a, b, lab):
        """collectors.size() == 1 taken true"""
        if not lab or not isinstance(lab[0], int):
            return False
        core, pol = norm_cond(lab[1], lab[0])
        c = comparison(lab[1], core)
        if not c:
            return False
        op, l, r = c
        ln, rn = strip_casts(f, l), strip_casts(f, r)
        if rn['k'] == 'call':
            op, ln, rn = FLIP[op], rn, ln
        if ln['k'] == 'call' and strip_targs(ln.get('c', '')).endswith('span::size') and strip_casts(f, ln['obj']).get('id') == cols['id'] and rn.get('v') == 1:
            truth = lab[2] if pol else (not lab[2])
            return (op == '==' and truth is True) or (op == '!=' and truth is False) or (op == '<=' and truth is True)
        return False
    stash_lookup = [p for p in g.points if p.n is not None and p.n['k'] == 'call' and strip_targs(p.n.get('c', '')).rsplit('::', 1)[-1] == 'find'
                    and p.n.get('obj') is not None and access_path(f, p.n['obj'], p.ctx) == ('this', 'unreported_metrics_')]
    # R3a: stash push to every collector
    pushes = [p for p in g.points if p.n is not None and p.n['k'] == 'call' and strip_targs(p.n.get('c', '')).rsplit('::', 1)[-1] in ('push_back', 'emplace_back')
              and access_path(f, p.n['obj'], p.ctx)[:2] == ('this', 'unreported_metrics_')]
    ok = False
    why = 'the delta is not appended to the stash of the collectors'
    if pushes:
        pm = f.parent_map()
        x = pushes[0].n['i']
        loop = None
        while x in pm:
            x = pm[x]
            if f.nodes[x]['k'] == 'forrange':
                loop = f.nodes[x]
                break
        if loop is not None and strip_casts(f, loop['range']).get('id') == cols['id']:
            body = [f.nodes[i] for i in f.subtree(loop['body'])]
            early = [n for n in body if n['k'] in ('break', 'return', 'continue', 'if')]
            key_ok = any(n['k'] == 'ref' and n.get('id') == loop['var'] for n in (f.nodes[i] for i in f.subtree(pushes[0].n['obj'])))
            ok = not early and key_ok
            why = 'the loop over the collectors can skip collectors or does not key the stash by the loop\'s collector'
        else:
            why = 'the delta is not appended inside a loop over all collectors'
    if not ok:
        # the same fan-out written as std::for_each(collectors.begin(), collectors.end(), [..](col) { stash[col].push_back(delta); })
        for n in f.nodes:
            if n['k'] == 'call' and strip_targs(n.get('c', '')) == 'std::for_each' and len(n.get('args', [])) >= 3:
                ends = [(strip_targs(f.nodes[k].get('c', '')).rsplit('::', 1)[-1], strip_casts(f, f.nodes[k]['obj']).get('id') if f.nodes[k].get('obj') is not None else None)
                        for a in n['args'][:2] for k in f.subtree(a) if f.nodes[k]['k'] == 'call' and strip_targs(f.nodes[k].get('c', '')).rsplit('::', 1)[-1] in ('begin', 'end', 'cbegin', 'cend')]
                lams = [prog.funcs[f.nodes[k]['fn']] for k in f.subtree(n['args'][2]) if f.nodes[k]['k'] == 'lambda' and f.nodes[k].get('fn') in prog.funcs]
                if [e[0] for e in ends][:2] not in (['begin', 'end'], ['cbegin', 'cend']) or any(e[1] != cols['id'] for e in ends[:2]) or not lams:
                    continue
                lf = lams[0]
                lp = [m for m in lf.nodes if m['k'] == 'call' and strip_targs(m.get('c', '')).rsplit('::', 1)[-1] in ('push_back', 'emplace_back') and
                      m.get('obj') is not None and access_path(lf, m['obj'])[:2] == ('this', 'unreported_metrics_')]
                branching = [m for m in lf.nodes if m['k'] in ('if', 'cond', 'return', 'SwitchStmt') or (m['k'] == 'binop' and m['op'] in ('&&', '||'))]
                if lp and not branching and lf.params and any(lf.nodes[k]['k'] == 'ref' and lf.nodes[k].get('id') == lf.params[0]['id'] for k in lf.subtree(lp[0]['obj'])):
                    ok = True
                    pushes = [g.point_of[(id(g.root_ctx), n['i'])]] if (id(g.root_ctx), n['i']) in g.point_of else pushes
    ck.verdict(ok, rule3, f, 'delta-to-every-collector', pushes[0].n if pushes else None, 'delta appended to every collector\'s stash' if ok else why + ': other readers never see these measurements')
    # R3b: every callback behind the single-collector edge or after the own-stash lookup
    for i, cb in enumerate(callbacks):
        ok = g.must_pass_edge(cb, single_edge) or (bool(stash_lookup) and g.must_pass(cb, stash_lookup) and
                                                   (not pushes or all(pp.id not in g.reachable_from([q for (q, _l) in cb.succ]) for pp in pushes)))
        ck.verdict(ok, rule3, f, 'callback#%d-fast-path-only-single-reader' % i, cb.n,
                   'callback is behind the single-collector edge or after the own-stash lookup' if ok else
                   'a report is produced without consulting the per-reader stash although more than one reader may be attached: the other readers never get this delta and this reader ignores what they stashed for it')
    # R3c: returns without callback
    for r in g.returns():
        if r.ctx is not g.root_ctx:
            continue
        e = r.n.get('e')
        if e is not None and any(f.nodes[j]['k'] == 'call' for j in f.subtree(e)):
            continue   # return callback(...)
        def miss_edge(a, b, lab):
            if not lab or not isinstance(lab[0], int):
                return False
            core, pol = norm_cond(lab[1], lab[0])
            cn = lab[1].nodes[core]
            if cn['k'] == 'call' and cn.get('op') in ('==', '!='):
                names = set()
                for o in ([cn['obj']] if cn.get('obj') is not None else []) + cn.get('args', []):
                    for (sf, sn, sc) in origins(g, rd, f, o, a.ctx):
                        if sn['k'] == 'call':
                            names.add((strip_targs(sn.get('c', '')).rsplit('::', 1)[-1], access_path(sf, sn['obj'], sc) if sn.get('obj') is not None else None))
                if ('find', ('this', 'unreported_metrics_')) in names and any(n[0] == 'end' for n in names):
                    truth = lab[2] if pol else (not lab[2])
                    return truth is (cn['op'] == '==')
            return False
        ok = g.must_pass_edge(r, single_edge) or g.must_pass_edge(r, miss_edge)
        ck.verdict(ok, rule3, f, 'return-without-report@%s' % ('single' if g.must_pass_edge(r, single_edge) else 'multi'), r.n,
                   'early return only on the single-collector fast path or when this reader has no stash' if ok else
                   'buildMetrics can return without a report before this reader\'s stash was consulted although several readers may be attached: what other readers\' collections stashed for this reader is never delivered')
    # writes to the per-collector "last reported" stash
    def _into_stash(idx, ctx):
        """the assigned object is (part of) an entry of the last-reported stash: reached directly, through an iterator from find /
        emplace, or through a local reference bound to such an entry"""
        if access_path(f, idx)[:2] == ('this', 'last_reported_metrics_') or _from_find(g, rd, f, idx, ctx, 'last_reported_metrics_'):
            return True
        root = strip_casts(f, idx)
        while root['k'] == 'member' and root.get('base') is not None:
            root = strip_casts(f, root['base'])
        if root['k'] == 'ref' and root.get('sk') == 'local':
            return 'last_reported_metrics_' in _member_sources(g, rd, f, root['i'], ctx)
        return False
    writes = [p for p in g.points if p.n is not None and p.ctx is g.root_ctx and
              ((p.n['k'] == 'call' and p.n.get('op') == '=' and p.n.get('obj') is not None and _into_stash(p.n['obj'], p.ctx)) or
               (p.n['k'] == 'call' and strip_targs(p.n.get('c', '')).rsplit('::', 1)[-1] in ('insert', 'emplace', 'insert_or_assign') and
                p.n.get('obj') is not None and access_path(f, p.n['obj'])[:2] == ('this', 'last_reported_metrics_')))]
    # R3d: the map stored as "reported" is the one the reader's unreported deltas were merged into, on every path
    merged_vars = {}
    for w in writes:
        for a in ([w.n['obj']] if False else []) + w.n.get('args', []):
            for j in f.subtree(a):
                m = f.nodes[j]
                if m['k'] == 'ref' and m.get('sk') == 'local' and 'unique_ptr<' in m.get('t', '') and 'AttributesHashMap' in m.get('t', ''):
                    merged_vars.setdefault(m['id'], (m['name'], []))[1].append(w)
    # the variable the unreported list is merged into: captured by reference by a GetAllEnteries callback run inside the loop
    # over this reader's unreported list
    fed = set()
    for lp in [n for n in f.nodes if n['k'] == 'forrange']:
        if 'unreported_metrics_' not in _member_sources(g, rd, f, lp['range'], g.root_ctx):
            continue
        for j in f.subtree(lp['body']):
            m = f.nodes[j]
            if m['k'] == 'lambda':
                for c in m.get('caps', []):
                    if c.get('byref') and c.get('id') in merged_vars:
                        fed.add(c['id'])
    if writes and not fed:
        ck.violation(rule3, f, 'unreported-merged-into-reported', writes[0].n,
                     'no map that is stored as this reader\'s reported state is filled from the reader\'s unreported list: what other readers\' collections stashed for it is never reported')
    for vid in sorted(fed):
        name, ws = merged_vars[vid]
        bad = None
        for w in ws:
            defs = [g.points[d] for (v, d) in rd.get(w.id, ()) if v == vid]
            # a definition with a value (assignment / reset(x)); being moved from inside the stored expression itself is not one
            extra = [dp for dp in defs if dp.n['k'] != 'declstmt' and
                     (any(v == vid and st for (v, st, vx) in defs_in_node(dp.f, dp.n)) or
                      (dp.n['k'] == 'call' and strip_targs(dp.n.get('c', '')).rsplit('::', 1)[-1] in ('reset', 'swap', 'release')))]
            if extra:
                bad = (w, extra[0])
        ck.verdict(bad is None, rule3, f, 'unreported-merged-into-reported', (bad[1] if bad else ws[0]).n,
                   'the map stored as reported is, on every path, the one the unreported deltas were merged into (%s)' % name if bad is None else
                   '%s is re-assigned before it is stored as the reader\'s reported state: on that path the deltas merged from the reader\'s unreported list are dropped (the cumulative total stays too low for good)' % name,
                   path=None if bad is None else g.describe_path(g.path(bad[1], bad[0]) or []))
    if rule4 is None:
        return f
    # R4c: every report produced on the stash path stores the current collection time for the reader
    end_ts = [p for p in g.points if p.n is not None and p.ctx is g.root_ctx and
              ((p.n['k'] == 'call' and p.n.get('op') == '=' and p.n.get('obj') is not None and access_path(f, p.n['obj'])[-1:] == ('end_ts',)) or
               (p.n['k'] == 'binop' and p.n['op'] == '=' and access_path(f, p.n['lhs'])[-1:] == ('end_ts',)))]
    now_ids = set()
    for ep in end_ts:
        rhs = ep.n['args'][0] if ep.n['k'] == 'call' else ep.n['rhs']
        for j in f.subtree(rhs):
            if f.nodes[j]['k'] == 'ref' and f.nodes[j].get('sk') == 'param':
                now_ids.add(f.nodes[j]['id'])
    if len(now_ids) != 1:
        raise AnalysisBroken('buildMetrics: the parameter carrying the current collection time (source of end_ts) not identified')
    ts_writes = [w for w in writes if any(f.nodes[j]['k'] == 'ref' and f.nodes[j].get('id') in now_ids for a in w.n.get('args', []) for j in f.subtree(a))]
    for cb in callbacks:
        if g.must_pass_edge(cb, single_edge):
            continue
        ok = bool(ts_writes) and g.must_pass(cb, ts_writes)
        ck.verdict(ok, rule4, f, 'collection-time-stored-before-report', cb.n,
                   'every report on the stash path is preceded by storing the current collection time for this reader' if ok else
                   'a report can be produced without the reader\'s stored collection time being advanced to the current one: the next delta interval starts at a stale time and overlaps this one',
                   path=None if ok else g.describe_path(g.path(g.entry, cb, avoid=ts_writes) or []))
    # R4: start timestamps
    starts = [p for p in g.points if p.n is not None and p.ctx is g.root_ctx and
              ((p.n['k'] == 'call' and p.n.get('op') == '=' and p.n.get('obj') is not None and access_path(f, p.n['obj'])[-1:] == ('start_ts',)) or
               (p.n['k'] == 'binop' and p.n['op'] == '=' and access_path(f, p.n['lhs'])[-1:] == ('start_ts',)))]
    sdk_start = [p for p in f.params if 'sdk_start' in p['name']]

    def delta_edge(a, b, lab):
        if not lab or not isinstance(lab[0], int):
            return False
        core, pol = norm_cond(lab[1], lab[0])
        c = comparison(lab[1], core)
        if not c:
            return False
        names = {f.nodes[i].get('qn', '') for i in f.subtree(core) if f.nodes[i]['k'] == 'ref'}
        if any(n.endswith('AggregationTemporality::kDelta') for n in names):
            truth = lab[2] if pol else (not lab[2])
            return (c[0] == '==' and truth is True) or (c[0] == '!=' and truth is False)
        return False
    for sp in starts:
        rhs = sp.n['args'][0] if sp.n['k'] == 'call' else sp.n['rhs']
        srcs = origins(g, rd, f, rhs, sp.ctx)
        per_collector = any(sn['k'] == 'member' and access_path(sf, sn['i'], sc)[:2] == ('this', 'last_reported_metrics_') or
                            any(sf.nodes[j]['k'] == 'member' and access_path(sf, j, sc)[:2] == ('this', 'last_reported_metrics_') for j in sf.subtree(sn['i']))
                            for (sf, sn, sc) in srcs)
        only_param = all(sn['k'] == 'ref' and sdk_start and sn.get('id') == sdk_start[0]['id'] for (sf, sn, sc) in srcs)
        on_delta = g.must_pass_edge(sp, delta_edge)
        site = 'start-ts@%s' % ('delta-fast-path' if g.must_pass_edge(sp, single_edge) else 'stash-path')
        if on_delta and only_param:
            ck.violation(rule4, f, site, sp.n,
                         'on a delta-only path the interval start is the SDK start time and depends on no per-reader state: every delta point starts at SDK start, successive intervals nest instead of abutting')
        elif per_collector or not on_delta:
            ck.holds(rule4, f, site, sp.n, 'start depends on per-collector state where the temporality may be delta')
        else:
            ck.inconclusive(rule4, f, site, sp.n, 'source of the start timestamp not recognised')
    # the per-collector timestamp is read before its entry is overwritten
    reads = [p for p in g.points if p.n is not None and p.n['k'] == 'member' and p.n['name'] == 'collection_ts' and p.ctx is g.root_ctx]
    for rp in reads:
        stale = [w for w in writes if rp.id in g.reachable_from([q for (q, _l) in w.succ])]
        ck.verdict(not stale, rule4, f, 'previous-ts-read-before-overwrite', rp.n,
                   'the previous collection time is read before the entry is overwritten' if not stale else
                   'the collector\'s previous collection time is read after its entry was overwritten with the current one: the delta interval degenerates to start == end',
                   path=None if not stale else g.describe_path(g.path(stale[0], rp) or []))
    return f


def _member_sources(g, rd, f, idx, ctx, depth=4, seen=None):
    """names of the data members an expression is derived from, following locals (iterators, moved-from copies) back to their definitions"""
    out = set()
    seen = seen if seen is not None else set()
    for (sf, sn, sc) in origins(g, rd, f, idx, ctx):
        for j in sf.subtree(sn['i']):
            m = sf.nodes[j]
            if m['k'] == 'member' and m.get('mk') != 'method':
                out.add(m['name'])
            elif m['k'] == 'ref' and m.get('sk') == 'local' and depth > 0 and (id(sf), j) not in seen and j != idx:
                seen.add((id(sf), j))
                out |= _member_sources(g, rd, sf, j, sc, depth - 1, seen)
    return out


def _from_find(g, rd, f, idx, ctx, field):
    """expression is (an access through) an iterator obtained from this.<field>.find(...)"""
    for j in f.subtree(idx):
        n = f.nodes[j]
        if n['k'] == 'ref' and n.get('sk') == 'local':
            for (sf, sn, sc) in origins(g, rd, f, j, ctx):
                if sn['k'] == 'call' and strip_targs(sn.get('c', '')).rsplit('::', 1)[-1] == 'find' and sn.get('obj') is not None and \
                        access_path(sf, sn['obj'], sc) == ('this', field):
                    return True
    return False


def rule_r5(ck, prog, rule='C06.R5'):
    rec = prog.record('sdk::metrics::Meter')
    cnt = 0
    for f in sorted(member_funcs(prog, rec['qn']), key=lambda x: x.line):
        for n in f.nodes:
            if n['k'] == 'call' and n.get('op') == '=' and n.get('obj') is not None:
                on = f.nodes[n['obj']]
                if on['k'] == 'call' and on.get('op') == '[]' and on.get('obj') is not None and access_path(f, on['obj'])[-1:] == ('storage_registry_',):
                    cnt += 1
                    host = f
                    while host.d.get('lambda') and host.d.get('parent') in prog.funcs:
                        host = prog.funcs[host.d['parent']]
                    site = 'registry-write@%s' % host.name
                    key = on['args'][0]
                    lv = leaves(f, key)
                    view_params = {p['name'] for p in f.params if 'View' in p['t']}
                    dep_view = any((l[0] == 'param' and l[1] in view_params) for l in lv) or \
                        any(f.nodes[i]['k'] == 'ref' and f.nodes[i]['name'] in ('view_instr_desc',) for i in f.subtree(key))
                    if f.d.get('lambda') and view_params and not dep_view:
                        ck.violation(rule, f, site, n,
                                     'inside the per-view callback the storage is written to the registry under a key that does not depend on the view (operator[] replaces): with two matching views, or a second handle for the same instrument, the earlier storage is replaced and its measurements are never collected')
                    else:
                        ck.holds(rule, f, site, n, 'registry key distinguishes the view streams')
    if not cnt:
        raise AnalysisBroken('no write to Meter::storage_registry_ found')
    return cnt


def rule_r6(ck, prog, rule='C06.R6'):
    for cls, ty in (('sdk::metrics::LongSumAggregation', 'long'), ('sdk::metrics::DoubleSumAggregation', 'double')):
        rec = prog.record(cls)
        for name, op in (('Merge', '+'), ('Diff', '-')):
            f = [x for x in prog.funcs.values() if x.cls == rec['qn'] and x.name == name][0]
            ops = [n for n in f.nodes if n['k'] == 'binop' and n['op'] in ('+', '-') and (n.get('t') in (ty, 'long', 'double'))]
            ok = len(ops) == 1 and ops[0]['op'] == op
            if ok:
                def side(idx):
                    sub = subtree_through_locals(f, idx)      # (operands may be named locals read through a helper)
                    refs = {f.nodes[i]['name'] for i in sub if f.nodes[i]['k'] == 'ref' and f.nodes[i].get('sk') == 'param'}
                    this = any(f.nodes[i]['k'] == 'this' for i in sub)
                    return ('arg' if refs else '') + ('this' if this and not refs else '')
                l, r = side(ops[0]['lhs']), side(ops[0]['rhs'])
                ok = {l, r} == {'arg', 'this'} and (op == '+' or (l == 'arg' and r == 'this'))
            ck.verdict(ok, rule, f, '%s-operator' % name.lower(), ops[0] if ops else None,
                       '%s = %s' % (name, 'this + delta' if op == '+' else 'next - this') if ok else
                       '%s::%s does not compute %s' % (cls.rsplit('::', 1)[-1], name, 'this + delta' if op == '+' else 'next - this'))


def _lambda_returns(prog, f, arg):
    """(lambda function, [return value nodes]) of the lambda passed as argument `arg` of a call in f"""
    for i in f.subtree(arg):
        if f.nodes[i]['k'] == 'lambda' and f.nodes[i].get('fn') in prog.funcs:
            lf = prog.funcs[f.nodes[i]['fn']]
            return lf, [strip_casts(lf, n['e']) if n.get('e') is not None and n['e'] >= 0 else None for n in lf.nodes if n['k'] == 'return']
    return None, None


def rule_r7(ck, prog, rule='C06.R7'):
    """collection fan-in: a collection visits every meter and every storage; the iteration callbacks never ask to stop."""
    from .common import loop_visits_every_element
    # (a) the collector visits every meter
    f = prog.function('sdk::metrics::MetricCollector::Produce')
    calls = [n for n in f.nodes if n['k'] == 'call' and strip_targs(n.get('c', '')).endswith('MeterContext::ForEachMeter')]
    if not calls:
        raise AnalysisBroken('MetricCollector::Produce: iteration over the meters not found')
    lf, rets = _lambda_returns(prog, f, calls[0]['args'][0])
    if lf is None:
        ck.inconclusive(rule, f, 'per-meter-callback-never-stops', calls[0], 'the per-meter callback is not a lambda in place')
    else:
        bad = [r for r in rets if r is None or not (r['k'] == 'lit' and r.get('v') == 1)]
        ck.verdict(not bad, rule, lf, 'per-meter-callback-never-stops', bad[0] if bad else calls[0],
                   'the per-meter callback returns true on all %d exits' % len(rets) if not bad else
                   'the per-meter callback can return something other than true: ForEachMeter stops and every meter registered after this one is not collected by this reader')
    # (b) ForEachMeter itself: every meter unless the callback asks to stop
    fe = prog.function('sdk::metrics::MeterContext::ForEachMeter')
    g = Graph(prog, fe, inline=None, sync_lambdas=False)
    cbp = [p for p in fe.params if 'function_ref' in p['t']]
    from .common import loops_over
    loops = loops_over(fe, lambda ap: ap == ('this', 'meters_'))
    if not cbp or not loops:
        raise AnalysisBroken('MeterContext::ForEachMeter: loop over meters_ / callback parameter not found')
    inv = [p for p in g.points if p.n is not None and p.n['k'] == 'call' and
           ((p.n.get('obj') is not None and strip_casts(fe, p.n['obj']).get('id') == cbp[0]['id']) or
            (p.n.get('fx') is not None and strip_casts(fe, p.n['fx']).get('id') == cbp[0]['id']))]

    def stop_edge(a, b, lab):
        if not lab or not isinstance(lab[0], int):
            return False
        core, pol = norm_cond(lab[1], lab[0])
        return any(lab[1].nodes[core] is p.n for p in inv) and (lab[2] if pol else not lab[2]) is False
    why = loop_visits_every_element(g, fe, loops[0], inv, allowed_exit=stop_edge)
    ck.verdict(why is None, rule, fe, 'every-meter-visited', loops[0], 'every meter is handed to the callback; the loop stops only when the callback says so' if why is None else why)
    # (c) a meter collects every storage
    mc = prog.function('sdk::metrics::Meter::Collect')
    g = Graph(prog, mc, inline=None, sync_lambdas=False)
    loops = loops_over(mc, lambda ap: ap == ('this', 'storage_registry_'))
    if not loops:
        raise AnalysisBroken('Meter::Collect: loop over storage_registry_ not found')
    cps = [p for p in g.points if p.n is not None and p.n['k'] == 'call' and p.n.get('virt') and strip_targs(p.n.get('c', '')).endswith('MetricStorage::Collect')
           and p.n['i'] in set(mc.subtree(loops[0]['body']))]
    why = loop_visits_every_element(g, mc, loops[0], cps)
    if why is None and cps:
        lf, rets = _lambda_returns(prog, mc, cps[0].n['args'][-1])
        if lf is not None and any(r is None or not (r['k'] == 'lit' and r.get('v') == 1) for r in rets):
            why = 'the per-metric callback can return false, which ends the storage\'s report early'
    ck.verdict(why is None, rule, mc, 'every-storage-collected', loops[0], 'every registered storage is collected in every collection' if why is None else
               why + ': the measurements of the skipped storages never reach this reader')


def rule_r8(ck, prog, rule='C06.R8'):
    """the temporality a collector answers with is the reader's answer for *this* instrument type on *this* call: on every path to a
    return the reader is asked with the instrument-type parameter, and the function keeps no state between calls (nothing rooted in
    `this` is written) - a cached answer makes the first instrument collected decide for all others of the same reader"""
    f = prog.function('sdk::metrics::MetricCollector::GetAggregationTemporality')
    g = Graph(prog, f, inline=None, sync_lambdas=False)
    it = f.params[0]
    asks = [p for p in g.points if p.f is f and p.n is not None and p.n['k'] == 'call' and strip_targs(p.n.get('c', '')).endswith('MetricReader::GetAggregationTemporality')]
    fwd = [p for p in asks if p.n.get('args') and strip_casts(f, p.n['args'][0]).get('id') == it['id']]
    rets = g.returns()
    skip = g.reachable_from(g.entry, avoid=fwd)
    ok = bool(fwd) and bool(rets) and not any(r.id in skip for r in rets)
    ck.verdict(ok, rule, f, 'reader-asked-with-the-instrument-type-on-every-path', (asks[0].n if asks else None),
               'every return is preceded by metric_reader_->GetAggregationTemporality(instrument_type)' if ok else
               'MetricCollector::GetAggregationTemporality can answer without asking the reader for this instrument type: a reader whose temporality differs per instrument type (counter delta, up-down counter cumulative) gets the wrong one')
    wr = None
    for n in f.nodes:
        tgt = None
        if n['k'] == 'binop' and n['op'].endswith('=') and n['op'] not in ('==', '!=', '<=', '>='):
            tgt = n['lhs']
        elif n['k'] == 'unop' and n['op'] in ('++', '--'):
            tgt = n['e']
        if tgt is None:
            continue
        ap = access_path(f, tgt)
        if ap and ap[0] == 'this' and len(ap) >= 2:
            wr = (n, ap)
            break
    ck.verdict(wr is None, rule, f, 'temporality-answer-keeps-no-state', wr[0] if wr else None,
               'no member is written' if wr is None else
               'MetricCollector::GetAggregationTemporality writes %s: the answer for one instrument type is remembered and served for every other type' % path_str(wr[1]))


def rule_r9(ck, prog, rule='C06.R9'):
    """folding several intervals into one map accumulates: every callback of buildMetrics that stores into a captured
    AttributesHashMap under the callback's own attribute set first looks that set up in the same map, stores a value built from the
    found aggregation when there is one, and stores a fresh one only on the not-found edge - otherwise a later interval overwrites
    an earlier one for the same attribute set (a reader that collects less often than another loses measurements)"""
    f = prog.function('sdk::metrics::TemporalMetricStorage::buildMetrics')
    lams = [x for x in prog.funcs.values() if x.d.get('lambda') and x.d.get('parent') == f.key]
    cnt = 0
    for lf in sorted(lams, key=lambda x: x.line):
        sets = [n for n in lf.nodes if n['k'] == 'call' and strip_targs(n.get('c', '')).endswith('::Set') and 'AttributesHashMap' in strip_targs(n.get('c', '')) and n.get('obj') is not None]
        if not sets or not lf.params:
            continue
        attr = lf.params[0]

        def capname(idx):
            for i in list(lf.subtree(idx)) + [idx]:
                m = lf.nodes[i]
                if m['k'] == 'ref' and (m.get('cap') or m.get('sk') in ('capture',)):
                    return m.get('name')
            return None
        g = Graph(prog, lf, inline=None, sync_lambdas=False)
        for sn in sets:
            mname = capname(sn['obj'])
            if mname is None or not (sn.get('args') and strip_casts(lf, sn['args'][0]).get('id') == attr['id']):
                continue
            cnt += 1
            gets = [n for n in lf.nodes if n['k'] == 'call' and strip_targs(n.get('c', '')).endswith('::Get') and 'AttributesHashMap' in strip_targs(n.get('c', '')) and
                    n.get('obj') is not None and capname(n['obj']) == mname and n.get('args') and strip_casts(lf, n['args'][0]).get('id') == attr['id']]
            site = 'fold-accumulates@line-offset-%d' % (sn['i'])
            site = 'fold-accumulates:%s#%d' % (mname, sum(1 for x in sets if x['i'] <= sn['i']))
            if not gets:
                ck.violation(rule, lf, site, sn, 'the callback stores into %s under the entry\'s attribute set without looking up what %s already holds for it: when several intervals (or the previous total) are folded, the later one replaces the earlier one instead of being merged' % (mname, mname))
                continue
            found = {d['id'] for n in lf.nodes if n['k'] == 'declstmt' for d in n['decls'] if d.get('init') is not None and any(gn['i'] in list(lf.subtree(d['init'])) + [d['init']] for gn in gets)}

            def uses_found(idx):
                return any(lf.nodes[i]['k'] == 'ref' and lf.nodes[i].get('id') in found for i in subtree_through_locals(lf, idx)) or \
                    any(gn['i'] in list(lf.subtree(idx)) for gn in gets)

            def null_edge(a, b, lab):
                if not lab or not isinstance(lab[0], int):
                    return False
                core, pol = norm_cond(lab[1], lab[0])
                cn = strip_casts(lab[1], core)
                c = comparison(lab[1], core)
                if c and c[0] in ('==', '!='):
                    l, r = strip_casts(lab[1], c[1]), strip_casts(lab[1], c[2])
                    for x, y in ((l, r), (r, l)):
                        if x['k'] == 'ref' and x.get('id') in found and (y.get('null') or y.get('v') == 0):
                            return (lab[2] if pol else not lab[2]) is (c[0] == '==')
                    return False
                if cn['k'] == 'ref' and cn.get('id') in found:
                    return (lab[2] if pol else not lab[2]) is False
                return False
            sp = g.point_of.get((id(g.root_ctx), sn['i']))
            val = sn['args'][1] if len(sn['args']) > 1 else None
            if val is not None and uses_found(val):
                ck.holds(rule, lf, site, sn, 'the stored value is built from the aggregation found for the same attribute set')
            else:
                ok = sp is not None and bool(found) and g.must_pass_edge(sp, null_edge)
                ck.verdict(ok, rule, lf, site, sn, 'a fresh aggregation is stored only when the map holds nothing for the attribute set' if ok else
                           'a value that does not include what %s already holds for the attribute set is stored although an entry may exist: the earlier contribution is overwritten' % mname)
    if cnt < 2:
        raise AnalysisBroken('C06.R9: fewer than two folding callbacks found in buildMetrics')


def rule_r10_report(ck, prog, rule='C06.R10'):
    """what buildMetrics hands to the reader, and what it keeps:
    (a) every MetricData passed to the callback has its descriptor, temporality, start and end time assigned, the end time from the
        collection timestamp parameter, the temporality from the collector's answer (or the literal kDelta behind the test of that
        answer against kDelta); every point appended to it has attributes and point data assigned;
    (b) the collector's stash of unreported deltas is taken out of the table (moved from / erased / cleared) before the report - a
        stash that stays is reported again at the next collection (double counting);
    (c) the previous cumulative state is merged only behind the outcome "this collector is cumulative"."""
    f = prog.function('sdk::metrics::TemporalMetricStorage::buildMetrics')
    g = Graph(prog, f, inline=None, sync_lambdas=False)
    rd = reaching_defs(g)
    lams = [x for x in prog.funcs.values() if x.d.get('lambda') and x.d.get('parent') == f.key]
    cbp = [p_ for p_ in f.params if 'function_ref' in p_['t'] and 'MetricData' in p_['t']]
    tsp = [p_ for p_ in f.params if 'SystemTimestamp' in p_['t']]
    if not cbp or len(tsp) < 2:
        raise AnalysisBroken('buildMetrics: callback / timestamp parameters not found')
    coll_ts = tsp[-1]
    reports = [p for p in g.points if p.n is not None and p.f is f and p.n['k'] == 'call' and
               any(f.nodes[j]['k'] == 'ref' and f.nodes[j].get('id') == cbp[0]['id'] for j in ([p.n['obj']] if p.n.get('obj') is not None else []) + ([p.n['fx']] if p.n.get('fx') is not None else []))]
    if not reports:
        raise AnalysisBroken('buildMetrics: no call of the report callback')
    temp_vars = {d['id'] for n in f.nodes if n['k'] == 'declstmt' for d in n['decls'] if d.get('init') is not None and d['init'] >= 0 and
                 any(f.nodes[j]['k'] == 'call' and strip_targs(f.nodes[j].get('c', '')).endswith('GetAggregationTemporality') for j in list(f.subtree(d['init'])) + [d['init']])}
    for k_, rp in enumerate(reports):
        md = [strip_casts(f, a) for a in rp.n.get('args', []) if a is not None and a >= 0]
        while md and md[0]['k'] == 'construct' and md[0].get('args'):
            md = [strip_casts(f, md[0]['args'][0])]
        site = 'report-complete@%d' % k_
        if not md or md[0]['k'] != 'ref' or md[0].get('sk') != 'local':
            ck.inconclusive(rule, f, site, rp.n, 'the reported MetricData is not a local of buildMetrics')
            continue
        root = 'local:%s:%s' % (md[0]['id'], md[0]['name'])
        stores = {}
        for p in g.points:
            n = p.n
            if n is None or p.f is not f:
                continue
            lhs = n['lhs'] if (n['k'] == 'binop' and n['op'] == '=') else (n.get('obj') if (n['k'] == 'call' and n.get('op') == '=') else None)
            rhs = n['rhs'] if (n['k'] == 'binop' and n['op'] == '=') else (n['args'][-1] if (n['k'] == 'call' and n.get('op') == '=' and n.get('args')) else None)
            if lhs is None:
                continue
            ap = access_path(f, lhs)
            if len(ap) == 2 and ap[0] == root:
                stores.setdefault(ap[1], []).append((p, rhs))
        need = ('instrument_descriptor', 'aggregation_temporality', 'start_ts', 'end_ts')
        missing = [x for x in need if not stores.get(x) or not g.must_pass(rp, [p for (p, _r) in stores[x]])]
        why = None
        if missing:
            why = 'the report is handed to the reader without %s being set' % ', '.join(missing)
        if why is None:
            for (p, r_) in stores['end_ts']:
                if rp.id in g.reachable_from([p]) and strip_casts(f, r_).get('id') != coll_ts['id'] and \
                        not any(f.nodes[j]['k'] == 'ref' and f.nodes[j].get('id') == coll_ts['id'] for j in list(f.subtree(r_)) + [r_]):
                    why = 'the end time of the report is not the collection timestamp'
        if why is None:
            for (p, r_) in stores['aggregation_temporality']:
                if rp.id not in g.reachable_from([p]):
                    continue
                rn = strip_casts(f, r_)
                if rn['k'] == 'ref' and rn.get('id') in temp_vars:
                    continue
                if rn.get('sk') == 'enum':
                    # a literal: only behind the test "the collector's answer equals this literal"
                    def eq_edge(a, b, lab, _v=rn.get('v')):
                        if not lab or not isinstance(lab[0], int) or lab[1] is not f:
                            return False
                        core, pol = norm_cond(f, lab[0])
                        c = comparison(f, core)
                        if not c or c[0] not in ('==', '!='):
                            return False
                        sides = [strip_casts(f, c[1]), strip_casts(f, c[2])]
                        if any(x.get('id') in temp_vars for x in sides) and any(x.get('sk') == 'enum' and x.get('v') == _v for x in sides):
                            return ((lab[2] if pol else not lab[2]) is (c[0] == '=='))
                        return False
                    if g.must_pass_edge(p, eq_edge):
                        continue
                why = 'the temporality written into the report is not the one this collector asked for'
        # points
        if why is None:
            for lf in lams:
                pts = [d for n in lf.nodes if n['k'] == 'declstmt' for d in n['decls'] if 'PointDataAttributes' in (d.get('t') or '')]
                for d in pts:
                    lg = Graph(prog, lf, inline=None, sync_lambdas=False)
                    flds = {}
                    for p in lg.points:
                        n = p.n
                        if n is None or p.f is not lf:
                            continue
                        lhs = n['lhs'] if (n['k'] == 'binop' and n['op'] == '=') else (n.get('obj') if (n['k'] == 'call' and n.get('op') == '=') else None)
                        if lhs is None:
                            continue
                        ap = access_path(lf, lhs)
                        if len(ap) == 2 and ap[0] == 'local:%s:%s' % (d['id'], d['name']):
                            flds.setdefault(ap[1], []).append(p)
                    adds = [p for p in lg.points if p.n is not None and p.f is lf and p.n['k'] == 'call' and strip_targs(p.n.get('c', '')).rsplit('::', 1)[-1] in ('emplace_back', 'push_back') and
                            any(lf.nodes[j]['k'] == 'ref' and lf.nodes[j].get('id') == d['id'] for a in p.n.get('args', []) if a is not None and a >= 0 for j in list(lf.subtree(a)) + [a])]
                    for fld in ('attributes', 'point_data'):
                        if adds and (not flds.get(fld) or not all(lg.must_pass(a_, flds[fld]) for a_ in adds)):
                            why = 'a point is appended to a report without its %s' % fld
        ck.verdict(why is None, rule, f, site, rp.n, 'descriptor, temporality (the collector\'s), start time and end time (the collection timestamp) are set; every point has attributes and data' if why is None else
                   'buildMetrics: %s' % why)
    # (b) stash taken out
    finds = [d for n in f.nodes if n['k'] == 'declstmt' for d in n['decls'] if d.get('init') is not None and d['init'] >= 0 and
             any(f.nodes[j]['k'] == 'call' and strip_targs(f.nodes[j].get('c', '')).rsplit('::', 1)[-1] == 'find' and f.nodes[j].get('obj') is not None and
                 access_path(f, f.nodes[j]['obj'])[:1] == ('this',) and 'unreported' in path_str(access_path(f, f.nodes[j]['obj'])) for j in list(f.subtree(d['init'])) + [d['init']])]
    stash_fields = [fd['name'] for fd in prog.record('sdk::metrics::TemporalMetricStorage')['fields'] if 'unordered_map' in fd['t'] and 'vector' in fd['t'] or 'list<' in fd['t']]
    takes = []
    find_ids = {d['id'] for d in finds}

    def is_found_second(idx):
        # <iterator returned by the stash lookup>->second
        m = strip_casts(f, idx)
        if m['k'] != 'member' or m.get('name') != 'second' or m.get('base') is None:
            return False
        b = strip_casts(f, m['base'])
        while b['k'] == 'call' and b.get('op') in ('->', '*') and b.get('obj') is not None:
            b = strip_casts(f, b['obj'])
        while b['k'] == 'unop' and b.get('op') == '*':
            b = strip_casts(f, b['e'])
        return b['k'] == 'ref' and b.get('id') in find_ids
    for n in f.nodes:
        if n['k'] == 'call' and strip_targs(n.get('c', '')) == 'std::move' and n.get('args') and is_found_second(n['args'][0]):
            takes.append(n)
        if n['k'] == 'call' and strip_targs(n.get('c', '')).rsplit('::', 1)[-1] in ('erase', 'clear', 'extract') and n.get('obj') is not None:
            ap = access_path(f, n['obj'])
            if (ap[:1] == ('this',) and len(ap) == 2 and ap[1] in stash_fields) or is_found_second(n['obj']):
                takes.append(n)
    if not finds:
        ck.inconclusive(rule, f, 'stash-taken-out', None, 'lookup of the collector\'s unreported stash not recognised')
    else:
        take_ids = {t_['i'] for t_ in takes}
        tp = [p for p in g.points if p.f is f and p.n is not None and (p.n['i'] in take_ids or (p.n['k'] in ('declstmt', 'call', 'construct', 'binop') and take_ids & set(f.subtree(p.n['i']))))]
        # the reports that come after the stash lookup (the single-reader fast path never touches the stash)
        fpts = [p for p in g.points if p.f is f and p.n is not None and p.n['k'] == 'declstmt' and any(d['id'] in find_ids for d in p.n['decls'])]
        after = g.reachable_from(fpts) if fpts else set()
        later = [r for r in reports if r.id in after]
        ok = bool(tp) and bool(later) and all(g.must_pass(r, tp) for r in later)
        ck.verdict(ok, rule, f, 'stash-taken-out', (takes or [None])[0], 'the collector\'s unreported deltas are moved out of the stash before they are reported' if ok else
                   'buildMetrics reports the collector\'s unreported deltas but leaves them in the stash: the next collection of this reader reports them again (sums counted twice)')
    # (c) previous cumulative state merged only for a cumulative collector
    merges = []
    for p in g.points:
        n = p.n
        if n is None or p.f is not f or n['k'] != 'call' or not strip_targs(n.get('c', '')).endswith('GetAllEnteries') or n.get('obj') is None:
            continue
        o = strip_casts(f, n['obj'])
        while o['k'] == 'call' and o.get('op') in ('->', '*') and o.get('obj') is not None:
            o = strip_casts(f, o['obj'])
        lam_merges = any(x['k'] == 'call' and strip_targs(x.get('c', '')).endswith('Aggregation::Merge') for a in n.get('args', []) if a is not None and a >= 0
                         for j in list(f.subtree(a)) + [a] if f.nodes[j]['k'] == 'lambda' and f.nodes[j].get('fn') in prog.funcs for x in prog.funcs[f.nodes[j]['fn']].nodes)
        if o['k'] == 'ref' and o.get('sk') == 'local' and lam_merges:
            init = [d for m in f.nodes if m['k'] == 'declstmt' for d in m['decls'] if d['id'] == o['id'] and d.get('init') is not None and d['init'] >= 0]
            if init and any(f.nodes[j]['k'] == 'member' and 'last_reported' in (f.nodes[j].get('name') or '') or
                            (f.nodes[j]['k'] == 'member' and f.nodes[j].get('name') == 'attributes_map') for j in list(f.subtree(init[0]['init'])) + [init[0]['init']]):
                merges.append(p)

    def cumulative_edge(a, b, lab):
        if not lab or not isinstance(lab[0], int) or lab[1] is not f:
            return False
        core, pol = norm_cond(f, lab[0])
        c = comparison(f, core)
        if not c or c[0] not in ('==', '!='):
            return False
        sides = [strip_casts(f, c[1]), strip_casts(f, c[2])]
        if not any(x.get('id') in temp_vars for x in sides):
            return False
        lit = [x for x in sides if x.get('sk') == 'enum']
        if not lit:
            return False
        is_cum = (lit[0].get('qn') or lit[0].get('name') or '').endswith('kCumulative')
        eq = (lab[2] if pol else not lab[2]) is (c[0] == '==')
        return eq if is_cum else (not eq)
    if not merges:
        ck.inconclusive(rule, f, 'previous-state-merged-iff-cumulative', None, 'the walk over the last reported state was not recognised')
    else:
        ok = all(g.must_pass_edge(p, cumulative_edge) for p in merges)
        ck.verdict(ok, rule, f, 'previous-state-merged-iff-cumulative', merges[0].n, 'the last reported state is folded in only behind "temporality == cumulative"' if ok else
                   'the previously reported state is folded into the report of a collector that is not (known to be) cumulative: a delta reader receives running totals (or a cumulative one only deltas)')


def run(ck, prog):
    ck.doc('C06.R1', 'lock-field association: table + Aggregate under the table lock; stashes under their lock; sum point under its lock', 10)
    ck.doc('C06.R2', 'every Add/Record overload forwards value/attributes/context to the matching storage call; multi storage to all', 20)
    ck.doc('C06.R3', 'buildMetrics: delta to every collector; fast path only for a single reader; no early return before the stash; merged stash reaches the report', 6)
    ck.doc('C06.R4', 'delta start time depends on per-collector state; previous time read before overwrite; current time stored before every report', 4)
    ck.doc('C06.R5', 'registry writes in the per-view callback use a view-dependent key', 2)
    ck.doc('C06.R6', 'Sum Merge = this + delta, Diff = next - this', 4)
    ck.doc('C06.R7', 'collection fan-in: every meter and every storage is visited; iteration callbacks never ask to stop', 3)
    ck.doc('C06.R10', 'buildMetrics report: descriptor / collector temporality / start / collection end time set, every point complete; the unreported stash is taken out before the report; previous state merged only for a cumulative collector', 4)
    ck.doc('C06.R9', 'folding intervals accumulates: stores into the merged map look the attribute set up first and overwrite only with a value built from the found aggregation', 2)
    ck.doc('C06.R8', 'a collector answers with the reader\'s temporality for this instrument type on this call (asked on every path, no cached state)', 2)
    ck.doc('C08.R2', '(shared rule, see C08) every constructor / mutation of the series key ends in UpdateHash()', 5)
    ck.doc('C08.R1', '(shared rule, see C08) the series key is a sorted map and its equality compares contents (two attribute sets share a series exactly when equal)', 2)
    ck.doc('C08.R4', '(shared rule, see C08) overflow guard arithmetic; lookup miss -> overflow test -> insertion in every GetOrSetDefault', 5)
    with ck.canary('C06.R1'):
        rule_r1_sync(ck, prog, cls='canary::c06::BadStorage')
    rule_r1_sync(ck, prog)
    rule_r1_fields(ck, prog, 'sdk::metrics::TemporalMetricStorage', ['unreported_metrics_', 'last_reported_metrics_'])
    rule_r1_fields(ck, prog, 'sdk::metrics::LongSumAggregation', ['point_data_'])
    rule_r1_fields(ck, prog, 'sdk::metrics::DoubleSumAggregation', ['point_data_'])
    rule_r2(ck, prog)
    build_metrics_rules(ck, prog)
    rule_r5(ck, prog)
    rule_r6(ck, prog)
    rule_r7(ck, prog)
    rule_r8(ck, prog)
    rule_r9(ck, prog)
    rule_r10_report(ck, prog)
    from . import c08
    c08.rule_r4(ck, prog)
    c08.rule_r2(ck, prog)
    c08.rule_r1(ck, prog)
    c08.rule_r1_consistency(ck, prog)
    return {}
