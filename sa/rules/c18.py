"""C18 - resources merge with documented precedence; environment settings parse totally (structural part)."""
import re

from ..ir import AnalysisBroken, strip_targs, qmatch
from ..graph import Graph
from ..symb import feasible_armed_reach, feasible_reach
from ..inteval import ieval, pin_conditions
from ..linear import relation
from ..expr import access_path, path_str, reaching_defs, norm_cond, origins, leaves, defs_in_node
from .common import strip_casts, short, comparison, once_init, iteration_starts, subtree_through_locals

UNITS = ['sdk/src/resource/resource.cc', 'sdk/src/resource/resource_detector.cc', 'sdk/src/common/env_variables.cc',
         'sdk/src/logs/logger.cc', 'sdk/src/metrics/state/metric_collector.cc', 'sdk/src/trace/span.cc', 'sdk/src/common/disabled.cc']
DRIVERS = []
CANARIES = ['c18_canary.cc']

EXPLANATION = (
    'C18.R1 (dependence/orientation): Resource::Merge copy-constructs its result from the argument\'s attributes and inserts the '
    'receiver\'s (insert keeps existing keys, so the argument wins), picks the argument\'s schema unless empty, and writes neither '
    'operand; Resource::Create is GetDefault().Merge(environment).Merge(user) in that receiver/argument order; the service.name '
    'fallback is written only behind the not-found test; the OTEL_RESOURCE_ATTRIBUTES pairs are split at the first \'=\'. '
    'C18.R2 (out-parameter typestate): in every Get*EnvironmentVariable a parsed (non-constant) value of the out-parameter reaches '
    'a "return true" only along the full-consumption / not-out-of-range edges and never reaches a "return false"; the duration '
    'helpers assign the out-parameter only on a path that returns true. C18.R3 (errno discipline): every strto* call whose errno '
    'is inspected is preceded on every path by errno = 0. C18.R4 (bounded accumulation): the digit accumulation v = v*10 + d is '
    'behind a comparison of v with the type\'s maximum; each instantiation of the unit conversion guards with the exact tick ratio '
    'of its unit (folded constants compared with the ratio named by the template argument). C18.R5 (forwarding): span, log record '
    'and metric batch take their resource from their provider context.')
EXPLANATION += ' C18.R2 also requires GetSdkDisabled to return the value the (case-insensitive) boolean reader delivered.'
ROUND2_EXPLANATION = (' C18.R5 also: every path of MetricCollector::Produce that returns the batch passes the resource assignment. C18.R6: the store of true into the boolean reader\'s out-parameter is unreachable once the whole-string case-insensitive comparison with "true" is pinned to unequal (bounded comparisons count only with a constant bound covering the terminator or a length test). C18.R7: region table over (separator position, token length): a token with a separator is stored for every key / value length, one without is not.')
ROUND2_EXPLANATION += (' C18.R1 also: service.name is present on every path of Resource::Create (the fallback is applied when it is absent or empty). C18.R8: every strto* / stoul conversion of an environment number uses base 10.')
ROUND2_EXPLANATION += (" C18.R6 also: no store into the boolean out-parameter is computed from characters of the text. C18.R9: the duration syntax as a table - each unit literal is compared with the whole rest of the input (not a prefix / sub-view), the conversion reached on its equal edge has exactly that unit's period (parsed from the template arguments of the call), all of ns/us/ms/s/m/h are present, and every conversion lies behind result != 0 (no digit, no value). C18.R10: the narrowing store of GetUintEnvironmentVariable is behind a bound of the parsed value that folds to exactly 2^32-1.")
EXPLANATION += ROUND2_EXPLANATION
NOT_DECIDED = 'exact values for every string; case-insensitive boolean literals beyond the calls made; std::getline tokenisation.'


def rule_r1(ck, prog, rule='C18.R1'):
    f = prog.function('sdk::resource::Resource::Merge')
    other = f.params[0]
    # (the union may be built in a file-local helper: helpers are inlined and their parameters resolved to the caller's expressions)
    gm = Graph(prog, f, inline=lambda caller, call, callee, depth: bool(callee.d.get('local')), sync_lambdas=False, max_depth=2)
    cons_p = [p for p in gm.points if p.n is not None and p.n['k'] == 'construct' and p.n.get('copymove') == 'copy' and p.n.get('args') and
              access_path(p.f, p.n['args'][0], p.ctx)[-1:] == ('attributes_',)]
    cons = [p.n for p in cons_p]
    ok = False
    if cons_p:
        ap = access_path(cons_p[0].f, cons_p[0].n['args'][0], cons_p[0].ctx)
        ok = ap == ('param:' + other['name'], 'attributes_')
    ck.verdict(ok, rule, f, 'merge-base-is-argument', cons[0] if cons else None, 'result starts as a copy of the argument\'s attributes' if ok else
               'Merge does not start from the argument\'s attributes: on a shared key the receiver\'s value wins instead of the argument\'s')
    ins_p = [p for p in gm.points if p.n is not None and p.n['k'] == 'call' and strip_targs(p.n.get('c', '')).rsplit('::', 1)[-1] == 'insert']
    ins = [p.n for p in ins_p]
    ok = False
    if ins_p:
        ip = ins_p[0]
        paths = [access_path(ip.f, ip.f.nodes[i]['obj'], ip.ctx) for a in ip.n['args'] for i in ip.f.subtree(a) if ip.f.nodes[i]['k'] == 'call' and ip.f.nodes[i].get('obj') is not None and
                 strip_targs(ip.f.nodes[i].get('c', '')).rsplit('::', 1)[-1] in ('begin', 'end')]
        ok = len(paths) == 2 and all(p == ('this', 'attributes_') for p in paths)
    ck.verdict(ok, rule, f, 'merge-inserts-receiver', ins[0] if ins else None, 'receiver\'s attributes inserted (existing keys kept)' if ok else
               'Merge does not insert the receiver\'s attributes into the copy of the argument\'s')
    # scenario table over "the argument's schema URL is empty": which schema URL the returned Resource is built with
    from ..symb import explore_pinned, eval3
    g_ = Graph(prog, f, inline=None, sync_lambdas=False)
    oschema = ('param:' + other['name'], 'schema_url_')

    def schema_pins(empty):
        pins = {}
        for n in f.nodes:
            if n['k'] == 'call' and n.get('obj') is not None and access_path(f, n['obj']) == oschema:
                last = strip_targs(n.get('c', '')).rsplit('::', 1)[-1]
                if last == 'empty':
                    pins[n['i']] = empty
            c = comparison(f, n['i'])
            if c and c[0] in ('==', '!=', '>') and strip_casts(f, c[2]).get('v') == 0:
                l = strip_casts(f, c[1])
                if l['k'] == 'call' and l.get('obj') is not None and access_path(f, l['obj']) == oschema and strip_targs(l.get('c', '')).rsplit('::', 1)[-1] in ('size', 'length'):
                    pins[n['i']] = empty if c[0] == '==' else (not empty)
        return pins

    def schema_of(empty):
        pins = schema_pins(empty)
        out = set()
        if not pins:
            return {'?'}
        for (ri, _v, env) in explore_pinned(g_, pins)[0]:
            if ri is None:
                out.add('?')
                continue
            cons_ = [f.nodes[k] for k in f.subtree(f.nodes[ri]['e']) if f.nodes[k]['k'] == 'construct' and strip_targs(f.nodes[k].get('c', '')).endswith('Resource::Resource') and len(f.nodes[k].get('args', [])) == 2]
            if not cons_:
                out.add('?')
                continue
            a = strip_casts(f, cons_[0]['args'][1])
            unknown = False
            for _hop in range(4):
                if a['k'] == 'ref' and a.get('sk') == 'local':
                    # a named (reference) local for the chosen URL
                    a2 = once_init(f, a['i'])
                    if 'i' not in a2 or a2['i'] == a['i']:
                        break
                    a = strip_casts(f, a2['i'])
                    continue
                if a['k'] == 'cond':
                    t = eval3(f, a['cnd'], dict(env), pins)
                    if t is None:
                        unknown = True
                        break
                    a = strip_casts(f, a['a'] if t else a['b'])
                    continue
                break
            if unknown:
                out.add('?')
                continue
            out.add(path_str(access_path(f, a['i'])) if 'i' in a else '?')
        return out
    conds = [n for n in f.nodes if n['k'] in ('cond', 'if')]
    got_e, got_n = schema_of(True), schema_of(False)
    ok = got_e == {'this.schema_url_'} and got_n == {path_str(oschema)}
    ck.verdict(ok, rule, f, 'merge-schema', conds[0] if conds else None, 'schema = other.empty ? this : other' if ok else 'the merged schema URL is not the argument\'s unless empty')
    ck.verdict(bool(f.d.get('const')), rule, f, 'merge-const', None, 'Merge is a const member taking a const reference' if f.d.get('const') else 'Merge is not a const member: it can modify its receiver')
    # Create
    f = prog.function('sdk::resource::Resource::Create')
    g = Graph(prog, f, inline=None, sync_lambdas=False)
    rd = reaching_defs(g)
    merges = [n for n in f.nodes if n['k'] == 'call' and strip_targs(n.get('c', '')).endswith('Resource::Merge')]
    ok = len(merges) == 2
    why = 'two Merge calls expected'
    if ok:
        outer = [m for m in merges if strip_casts(f, m['obj']) in merges or f.nodes[m['obj']] in merges]
        inner = [m for m in merges if m not in outer]
        ok = len(outer) == 1 and len(inner) == 1
        if ok:
            o, i = outer[0], inner[0]
            base = strip_casts(f, i['obj'])
            base_ok = base['k'] == 'call' and strip_targs(base.get('c', '')).endswith('Resource::GetDefault')
            env_src = origins(g, rd, f, i['args'][0], g.root_ctx)
            env_ok = any((sn['k'] == 'call' and strip_targs(sn.get('c', '')).endswith('OTELResourceDetector::Detect')) or
                         (sn['k'] == 'ref' and sn.get('sk') == 'static_local') for (sf, sn, sc) in env_src)
            if not env_ok:
                # static local initialised from Detect()
                a = strip_casts(f, i['args'][0])
                env_ok = a['k'] == 'ref' and a.get('sk') == 'static_local'
            ua = strip_casts(f, o['args'][0])
            user_ok = ua['k'] == 'construct' and [strip_casts(f, x).get('id') for x in ua.get('args', [])] == [p['id'] for p in f.params]
            ok = base_ok and env_ok and user_ok
            why = 'the chain is not GetDefault().Merge(environment).Merge(user): base=%s env=%s user=%s' % (base_ok, env_ok, user_ok)
    ck.verdict(ok, rule, f, 'create-chain-order', merges[0] if merges else None, 'defaults <- environment <- caller' if ok else
               'Resource::Create: %s (the caller\'s attributes must override the environment, which overrides the SDK defaults)' % why)
    writes = [p for p in g.points if p.n is not None and p.n['k'] == 'call' and p.n.get('op') == '=' and p.n.get('obj') is not None and
              f.nodes[p.n['obj']]['k'] == 'call' and f.nodes[p.n['obj']].get('op') == '[]' and
              any(f.nodes[i]['k'] == 'ref' and f.nodes[i]['name'] == 'kServiceName' for i in f.subtree(p.n['obj']))]

    written = {access_path(f, f.nodes[p.n['obj']]['obj']) for p in writes if f.nodes[p.n['obj']].get('obj') is not None}

    def notfound(a, b, lab):
        if not lab or not isinstance(lab[0], int):
            return False
        core, pol = norm_cond(lab[1], lab[0])
        cn = lab[1].nodes[core]
        truth_ = lab[2] if pol else (not lab[2])
        # count(service.name) == 0 / != 0 / > 0, contains(...), or the bare count used as a truth value
        cc = comparison(lab[1], core)
        probe = None
        if cc and cn['k'] == 'binop':
            for x, y in ((cc[1], cc[2]), (cc[2], cc[1])):
                xn = strip_casts(lab[1], x)
                if xn['k'] == 'call' and strip_targs(xn.get('c', '')).rsplit('::', 1)[-1] == 'count' and strip_casts(lab[1], y).get('v') == 0:
                    probe = (xn, cc[0] if x == cc[1] else FLIP_.get(cc[0], cc[0]))
        elif cn['k'] == 'call' and strip_targs(cn.get('c', '')).rsplit('::', 1)[-1] in ('count', 'contains'):
            probe = (cn, '!=')
        if probe is not None:
            xn, op = probe
            if xn.get('obj') is None or access_path(f, xn['obj']) not in written:
                return False
            if not any(f.nodes[i]['k'] == 'ref' and f.nodes[i]['name'] == 'kServiceName' for a_ in xn.get('args', []) for i in list(f.subtree(a_)) + [a_]):
                return False
            if op == '==':
                return truth_ is True
            if op in ('!=', '>'):
                return truth_ is False
            return False
        if cn['k'] == 'call' and cn.get('op') in ('==', '!='):
            sub = [f.nodes[i] for i in f.subtree(core)]
            if any(n['k'] == 'ref' and n['name'] == 'kServiceName' for n in sub) and any(n['k'] == 'call' and strip_targs(n.get('c', '')).rsplit('::', 1)[-1] == 'end' for n in sub):
                # the lookup has to be made in the very map the fallback is written to (the merged result, not one of its inputs)
                looked = {access_path(f, n['obj']) for n in sub if n['k'] == 'call' and n.get('obj') is not None and
                          strip_targs(n.get('c', '')).rsplit('::', 1)[-1] in ('find', 'end', 'count')}
                if not looked <= written:
                    return False
                return (lab[2] if pol else not lab[2]) is (cn['op'] == '==')
        return False
    # ... and always contains one: once the lookup said "missing", every path to the return writes service.name
    nf_targets = [q for p_ in g.points for (q, lab) in p_.succ if notfound(p_, q, lab)]
    if nf_targets and writes:
        leak = g.reachable_from(nf_targets, avoid=writes)
        okw = g.exit.id not in leak
        ck.verdict(okw, rule, f, 'service-name-always-present', writes[0].n,
                   'when service.name is missing the fallback is written on every path' if okw else
                   'Resource::Create can return without a service.name: on a path behind "service.name is missing" the fallback is not written under that key (e.g. it is stored under another key)')
    ok = bool(writes) and all(g.must_pass_edge(p, notfound) for p in writes)
    ck.verdict(ok, rule, f, 'service-name-fallback-only-when-missing', writes[0].n if writes else None, 'fallback written only when service.name is missing' if ok else
               'the service.name fallback can overwrite a configured service.name (or is never written)')
    f = prog.function('sdk::resource::OTELResourceDetector::Detect')
    # (the list parser may live in a file-local helper of the detector)
    hosts = [f] + [prog.funcs[n['ck']] for n in f.nodes if n['k'] == 'call' and n.get('ck') in prog.funcs and prog.funcs[n['ck']].d.get('local') and prog.funcs[n['ck']].blocks]
    finds = [n for h in hosts for n in h.nodes if n['k'] == 'call' and n.get('args') and h.nodes[n['args'][0]].get('v') == ord('=') and
             strip_targs(n.get('c', '')).rsplit('::', 1)[-1] in ('find', 'rfind', 'find_first_of', 'find_last_of')]
    ok = len(finds) == 1 and strip_targs(finds[0]['c']).rsplit('::', 1)[-1] in ('find', 'find_first_of')
    ck.verdict(ok, rule, f, 'pair-split-at-first-equals', finds[0] if finds else None, 'key=value split at the first =' if ok else
               'a key=value pair is not split at the first \'=\': values containing \'=\' end up in the key')


WHOLE_CI = ('strcasecmp', '_stricmp', 'stricmp')
WHOLE_CS = ('strcmp',)
BOUNDED_CI = ('strncasecmp', '_strnicmp', 'strnicmp')
BOUNDED_CS = ('strncmp', 'memcmp')


def _bool_table_form(ck, prog, f, g, rd, out, rule):
    """the spellings live in a constant table {text, result} walked by a range-for: every row is a documented spelling with its
    value (case-insensitively "true" -> true, "false" -> false), the store takes the row's result, and it is gated by a
    whole-string case-insensitive comparison of the raw text with the row's text.  Returns True when the form was recognised
    (a verdict has been given)."""
    for lp in [n for n in f.nodes if n['k'] == 'forrange']:
        rn = strip_casts(f, lp['range'])
        if rn['k'] != 'ref' or rn.get('sk') not in ('static_local', 'global', 'local'):
            continue
        decl = [d for n in f.nodes if n['k'] == 'declstmt' for d in n['decls'] if d['id'] == rn.get('id')]
        if not decl or decl[0].get('init') is None or 'const' not in (decl[0].get('t') or ''):
            continue
        top = f.nodes[decl[0]['init']]
        if top['k'] != 'initlist':
            continue
        rows = []
        for ch in top.get('ch', []):
            rnod = f.nodes[ch]
            if rnod['k'] != 'initlist':
                rows = None
                break
            texts = [f.nodes[i].get('s') for i in list(f.subtree(ch)) if f.nodes[i]['k'] == 'str']
            bools = [f.nodes[i].get('v') for i in rnod.get('ch', []) if strip_casts(f, i)['k'] == 'lit' and (strip_casts(f, i).get('t') == 'bool' or strip_casts(f, i).get('v') in (0, 1))]
            bools = [strip_casts(f, i).get('v') for i in rnod.get('ch', []) if strip_casts(f, i)['k'] == 'lit' and 'v' in strip_casts(f, i)]
            if len(texts) != 1 or len(bools) != 1:
                rows = None
                break
            rows.append((texts[0], bool(bools[0])))
        if not rows:
            continue
        var = lp.get('var')
        body = set(f.subtree(lp['body']))
        stores = [p for p in g.points if p.f is f and p.n is not None and p.n['i'] in body and p.n['k'] == 'binop' and p.n['op'] == '=' and
                  strip_casts(f, p.n['lhs']).get('id') == out['id'] and
                  any(f.nodes[i]['k'] == 'ref' and f.nodes[i].get('id') == var for i in f.subtree(p.n['rhs']))]
        cmps = [n for n in f.nodes if n['i'] in body and n['k'] == 'call' and strip_targs(n.get('c', '') or '').rsplit('::', 1)[-1] in WHOLE_CI + WHOLE_CS + BOUNDED_CI + BOUNDED_CS and
                any(f.nodes[i]['k'] == 'ref' and f.nodes[i].get('id') == var for a in n.get('args', []) if a is not None and a >= 0 for i in f.subtree(a))]
        if not stores or not cmps:
            continue
        bad = None
        wrong = [(t, v) for (t, v) in rows if not ((t.lower() == 'true' and v is True) or (t.lower() == 'false' and v is False))]
        if wrong:
            bad = 'the spelling table holds %r -> %s, which is not a documented boolean spelling' % wrong[0]
        names = {strip_targs(n['c']).rsplit('::', 1)[-1] for n in cmps}
        if bad is None and not names <= set(WHOLE_CI):
            bad = '%s is not a whole-string case-insensitive comparison' % ', '.join(sorted(names - set(WHOLE_CI)))
        if bad is None:
            pm = f.parent_map()
            pins = {}
            for n in cmps:
                x = n['i']
                while x in pm and f.nodes[pm[x]]['k'] in ('cast', 'paren'):
                    x = pm[x]
                par = f.nodes[pm[x]] if x in pm else None
                if par is not None and comparison(f, par['i']):
                    pins[par['i']] = (par.get('op') == '!=')          # "different"
                elif par is not None and par['k'] == 'unop' and par['op'] == '!':
                    pins[par['i']] = False
                else:
                    pins[n['i']] = True                                # non-zero = different
            if feasible_reach(g, [g.entry], stores, pins=pins) is not None:
                bad = 'the row\'s result can be stored although the raw text did not compare equal to the row\'s text'
        ck.verdict(bad is None, rule, f, 'true-needs-whole-string-match', stores[0].n,
                   'table form: %d rows, each a documented spelling, stored only behind a whole-string case-insensitive match of its row' % len(rows) if bad is None else
                   'the boolean reader accepts more than the documented spellings: ' + bad)
        return True
    return False


def rule_r6(ck, prog, rule='C18.R6'):
    """Boolean spellings: the store of `true` into the out-parameter of the boolean reader is gated by a *whole-string*,
    case-insensitive comparison of the raw text with "true" (pinned false => the store is unreachable).  A bounded comparison
    counts only when its bound is a constant covering the terminator or when an equality of the length with 4 gates the store as well."""
    f = prog.function('sdk::common::GetBoolEnvironmentVariable')
    g = Graph(prog, f, inline=None, sync_lambdas=False)
    rd = reaching_defs(g)
    out = f.params[1]
    stores = [p for p in g.points if p.f is f and p.n is not None and p.n['k'] == 'binop' and p.n['op'] == '=' and
              strip_casts(f, p.n['lhs']).get('id') == out['id'] and strip_casts(f, p.n['rhs'])['k'] == 'lit' and strip_casts(f, p.n['rhs']).get('v') == 1]
    # the reader never computes the flag from characters of the text: every store into the out-parameter is a constant (or, in the
    # table form, an entry of a constant table) - "any other string falls back to false"
    computed = [p for p in g.points if p.f is f and p.n is not None and p.n['k'] == 'binop' and p.n['op'] in ('=', '|=', '&=', '^=') and
                strip_casts(f, p.n['lhs']).get('id') == out['id'] and strip_casts(f, p.n['rhs'])['k'] != 'lit' and
                any(f.nodes[i]['k'] in ('subscript', 'call') and (f.nodes[i]['k'] == 'subscript' or strip_targs(f.nodes[i].get('c', '') or '').rsplit('::', 1)[-1] in
                    ('operator[]', 'at', 'front', 'back', 'c_str', 'data', 'compare', 'find') + tuple(WHOLE_CI + WHOLE_CS + BOUNDED_CI + BOUNDED_CS))
                    for i in list(f.subtree(p.n['rhs'])) + [p.n['rhs']])]
    direct_cmp = [p for p in computed if strip_casts(f, p.n['rhs'])['k'] in ('binop',) and comparison(f, strip_casts(f, p.n['rhs'])['i']) and
                  any(f.nodes[i]['k'] == 'call' and strip_targs(f.nodes[i].get('c', '') or '').rsplit('::', 1)[-1] in WHOLE_CI for i in f.subtree(p.n['rhs']))]
    computed = [p for p in computed if p not in direct_cmp]      # `value = (strcasecmp(raw, "true") == 0)` is the whole-string match itself
    if computed:
        ck.violation(rule, f, 'flag-is-a-constant-per-spelling', computed[0].n, 'the boolean reader computes the flag from characters of the text instead of storing a constant per recognised spelling: strings other than true / false do not fall back to false')
    else:
        ck.holds(rule, f, 'flag-is-a-constant-per-spelling', None, 'every store into the out-parameter is a constant or the whole-string comparison itself')
    if not stores:
        if _bool_table_form(ck, prog, f, g, rd, out, rule):
            return
        ck.inconclusive(rule, f, 'true-needs-whole-string-match', None, 'no store of the constant true into the out-parameter found')
        return
    cmp_calls = []
    for n in f.nodes:
        if n['k'] != 'call':
            continue
        name = strip_targs(n.get('c', '') or '').rsplit('::', 1)[-1]
        lits = [f.nodes[i].get('s') for a in n.get('args', []) if a is not None and a >= 0 for i in list(f.subtree(a)) + [a] if f.nodes[i]['k'] == 'str']
        if name in WHOLE_CI + WHOLE_CS + BOUNDED_CI + BOUNDED_CS and lits:
            cmp_calls.append((n, name, lits[0]))
    if not cmp_calls:
        ck.inconclusive(rule, f, 'true-needs-whole-string-match', None, 'the spelling comparison is not one of the recognised C string comparisons')
        return
    pm = f.parent_map()

    def cmp_node(n):
        # the enclosing `== 0` / `!= 0` / `!x` comparison of the call result
        x = n['i']
        while x in pm and f.nodes[pm[x]]['k'] in ('cast', 'paren'):
            x = pm[x]
        if x in pm and (comparison(f, pm[x]) or (f.nodes[pm[x]]['k'] == 'unop' and f.nodes[pm[x]]['op'] == '!')):
            return f.nodes[pm[x]]
        return f.nodes[x]

    def equal_truth(cn):
        # the truth value of node cn that means "the strings are equal"
        if cn['k'] == 'binop' and cn['op'] == '!=':
            return False
        if cn['k'] == 'call':
            return False          # `if (strcasecmp(..))`: non-zero = different
        return True               # `== 0` or `!x`
    whole = []
    size_eq = [n for n in f.nodes if comparison(f, n['i']) and n.get('op') == '==' and
               any(f.nodes[i]['k'] == 'call' and strip_targs(f.nodes[i].get('c', '')).rsplit('::', 1)[-1] in ('size', 'length') for i in f.subtree(n['i'])) and
               any(f.nodes[i].get('v') == 4 for i in f.subtree(n['i']))]
    problems = []
    for (n, name, lit) in cmp_calls:
        if lit.lower() != 'true':
            continue
        if lit != 'true' and name in WHOLE_CS + BOUNDED_CS:
            continue
        if name in WHOLE_CS + BOUNDED_CS:
            problems.append('%s compares case-sensitively: "TRUE" / "True" are documented spellings' % name)
            continue
        if name in WHOLE_CI:
            whole.append(cmp_node(n))
            continue
        # bounded: the bound
        bound = ieval(g, rd, f, n['args'][2], g.root_ctx, {}) if len(n.get('args', [])) > 2 else None
        if isinstance(bound, int) and bound >= len(lit) + 1:
            whole.append(cmp_node(n))
        elif size_eq:
            whole.append(cmp_node(n))
            whole.append(('and', size_eq))
        else:
            problems.append('%s is bounded by %s: every prefix of "true" ("t", "tr", "TRU") compares equal' %
                            (name, bound if bound is not None else 'the length of the raw text'))
    bad = None
    if not whole:
        bad = problems[0] if problems else 'no whole-string comparison with "true"'
    else:
        pins = {}
        for w in whole:
            if isinstance(w, tuple):
                continue
            pins[w['i']] = not equal_truth(w)
        if feasible_reach(g, [g.entry], stores, pins=pins) is not None:
            bad = (problems[0] + '; ' if problems else '') + 'true can be stored although the raw text did not compare equal to "true" as a whole'
        for w in whole:
            if isinstance(w, tuple) and bad is None:
                pins2 = {x['i']: False for x in w[1]}
                if feasible_reach(g, [g.entry], stores, pins=pins2) is not None:
                    bad = 'a bounded comparison with "true" is not backed by a length test on every path'
    ck.verdict(bad is None, rule, f, 'true-needs-whole-string-match', stores[0].n,
               'true is stored only behind a whole-string case-insensitive match of "true"' if bad is None else
               'the boolean reader accepts more than the documented spellings: ' + bad)


def rule_r7(ck, prog, rule='C18.R7'):
    """key=value lists, as a region table over (position of '=', length of the token): a token with a separator is stored whatever
    the lengths of its key and value are (`k=` yields the empty value), a token without one is not."""
    f0 = prog.function('sdk::resource::OTELResourceDetector::Detect')
    hosts = [f0] + [prog.funcs[n['ck']] for n in f0.nodes if n['k'] == 'call' and n.get('ck') in prog.funcs and prog.funcs[n['ck']].d.get('local') and prog.funcs[n['ck']].blocks]
    done = False
    for f in hosts:
        finds = [n for n in f.nodes if n['k'] == 'call' and n.get('args') and f.nodes[n['args'][0]].get('v') == ord('=') and
                 strip_targs(n.get('c', '')).rsplit('::', 1)[-1] in ('find', 'find_first_of') and n.get('obj') is not None]
        if len(finds) != 1:
            continue
        fd = finds[0]
        g = Graph(prog, f, inline=None, sync_lambdas=False)
        rd = reaching_defs(g)
        tok = path_str(access_path(f, fd['obj'], g.root_ctx))
        # the variable the position is kept in
        posvar = None
        for n in f.nodes:
            if n['k'] == 'declstmt':
                for d in n['decls']:
                    if d.get('init') is not None and fd['i'] in list(f.subtree(d['init'])) + [d['init']]:
                        posvar = d
        loops = [l for l in f.nodes if l['k'] in ('while', 'for', 'forrange', 'do') and fd['i'] in f.subtree(l['body'])]
        if posvar is None or len(loops) != 1:
            ck.inconclusive(rule, f, 'every-pair-with-separator-is-stored', fd, 'the position of the separator is not kept in a local / no token loop')
            return
        lp = loops[0]
        body = set(f.subtree(lp['body']))
        stores = [p for p in g.points if p.f is f and p.n is not None and p.n['i'] in body and p.n['k'] == 'call' and
                  (p.n.get('op') == '[]' or strip_targs(p.n.get('c', '')).rsplit('::', 1)[-1] in ('emplace', 'insert', 'insert_or_assign', 'SetAttribute', 'try_emplace')) and
                  p.n.get('obj') is not None and 'map' in (f.nodes[p.n['obj']].get('t') or '') + strip_targs(p.n.get('c', ''))]
        fpt = [p for p in g.points if p.f is f and p.n is fd]
        if not stores or not fpt:
            ck.inconclusive(rule, f, 'every-pair-with-separator-is-stored', fd, 'the insertion into the attribute map was not found')
            return
        after = [q for (q, _l) in fpt[0].succ]
        NPOS = (1 << 64) - 1
        rows = [((3, 7), True, 'k=v'), ((3, 4), True, 'an empty value ("key=")'), ((1, 2), True, 'a one-character key with an empty value'),
                ((6, 7), True, 'the separator as last character'), ((NPOS, 5), False, 'no separator')]
        bad = None
        for ((pos, size), must, what) in rows:
            env = {'local:' + posvar['name']: pos, tok + '.size()': size, tok + '.length()': size}
            pins = pin_conditions(g, rd, f, env)
            # leave the iteration (reach the loop condition again / the exit) without storing?
            skip = feasible_reach(g, after, [g.exit], avoid=stores, pins=pins) is not None
            hit = feasible_reach(g, after, stores, pins=pins) is not None
            if must and (skip or not hit):
                bad = 'a token with %s (separator at %d, length %d) can leave the loop body without being stored: the attribute is silently dropped' % (what, pos, size)
                break
            if not must and hit:
                bad = 'a token with %s is stored' % what
                break
        ck.verdict(bad is None, rule, f, 'every-pair-with-separator-is-stored', fd,
                   'tokens with a separator are stored for every key / value length (%d rows), tokens without are skipped' % len(rows) if bad is None else bad)
        done = True
        break
    if not done:
        raise AnalysisBroken('C18.R7: the key=value list parser of OTELResourceDetector::Detect was not found')


def _is_const_default(f, idx):
    if idx is None:
        return True
    n = strip_casts(f, idx)
    if 'v' in n or 'fv' in n or n.get('null'):
        return True
    if n['k'] == 'ref' and n.get('sk') in ('static_local', 'global') and ('v' in n or 'fv' in n or 'Default' in n['name']):
        return True
    if n['k'] == 'construct':
        args = n.get('args', [])
        if not args:
            return True
        return all(_is_const_default(f, a) for a in args)
    if n['k'] == 'call' and strip_targs(n.get('c', '')).endswith('duration_cast') and all(_is_const_default(f, a) for a in n.get('args', [])):
        return True
    if n['k'] == 'initlist':
        return all(_is_const_default(f, a) for a in n.get('ch', []))
    return False


def rule_r2(ck, prog, rule='C18.R2'):
    names = ('GetBoolEnvironmentVariable', 'GetUintEnvironmentVariable', 'GetFloatEnvironmentVariable', 'GetStringEnvironmentVariable',
             'GetDurationEnvironmentVariable')
    for nm in names:
        f = prog.function('sdk::common::' + nm)
        g = Graph(prog, f, inline=None, sync_lambdas=False)
        rd = reaching_defs(g)
        out = f.params[1]

        def consumed(a, b, lab):
            """edges that establish full consumption / in range"""
            if not lab or not isinstance(lab[0], int):
                return False
            core, pol = norm_cond(lab[1], lab[0])
            c = comparison(lab[1], core)
            if not c:
                return False
            names_ = {f.nodes[i]['name'] for i in f.subtree(core) if f.nodes[i]['k'] == 'ref'}
            truth = lab[2] if pol else (not lab[2])
            if {'actual_end', 'end'} <= names_:
                return (c[0] == '!=' and truth is False) or (c[0] == '==' and truth is True)
            return False

        def not_erange(a, b, lab):
            if not lab or not isinstance(lab[0], int):
                return False
            core, pol = norm_cond(lab[1], lab[0])
            c = comparison(lab[1], core)
            if c and any(f.nodes[i]['k'] == 'call' and strip_targs(f.nodes[i].get('c', '')) == '__errno_location' for i in f.subtree(core)):
                truth = lab[2] if pol else (not lab[2])
                return (c[0] == '==' and truth is False) or (c[0] == '!=' and truth is True)
            return False
        # decided by pinning: in the scenario "the parser stopped before the end of the string" (every comparison of the end pointer
        # strto* reported says "different") and in the scenario "errno == ERANGE" no parsed value may reach a "return true"
        endptrs = set()
        for n in f.nodes:
            if n['k'] == 'call' and strip_targs(n.get('c', '')).rsplit('::', 1)[-1].startswith('strto') and len(n.get('args', [])) >= 2:
                a1 = strip_casts(f, n['args'][1])
                if a1['k'] == 'unop' and a1['op'] == '&':
                    endptrs.add(strip_casts(f, a1['e']).get('id'))
        # nodes inside the strto* calls themselves (`&actual_end` as an argument) are not uses of what the call reported
        in_strto = set()
        for n in f.nodes:
            if n['k'] == 'call' and strip_targs(n.get('c', '')).rsplit('::', 1)[-1].startswith('strto'):
                in_strto |= set(f.subtree(n['i'])) | {n['i']}

        def from_endptr(x):
            return any(f.nodes[i]['k'] == 'ref' and f.nodes[i].get('id') in endptrs and i not in in_strto for i in list(subtree_through_locals(f, x)) + [x])
        unconsumed_pins, erange_pins = {}, {}
        for n in f.nodes:
            c = comparison(f, n['i'])
            if not c or c[0] not in ('==', '!='):
                continue
            derived = [from_endptr(x) for x in (c[1], c[2])]
            if any(derived) and not any(strip_casts(f, x).get('null') for x in (c[1], c[2])):
                # the end pointer strto* reported (or a length computed from it) compared with the end / the length of the text
                unconsumed_pins[n['i']] = (c[0] == '!=')
            if any(f.nodes[i]['k'] == 'call' and strip_targs(f.nodes[i].get('c', '')) == '__errno_location' for i in f.subtree(n['i'])):
                erange_pins[n['i']] = (c[0] == '==')
        bad = None
        n_ret = 0
        any_endcmp = any(comparison(f, n['i']) and any(from_endptr(x) for x in comparison(f, n['i'])[1:])
                         and not any(strip_casts(f, x).get('null') for x in comparison(f, n['i'])[1:]) for n in f.nodes)
        if endptrs and not unconsumed_pins and any_endcmp:
            ck.inconclusive(rule, f, 'out-parameter', None, 'the test "the whole text was consumed" is not an equality of the end pointer (or a length derived from it): not decided')
            continue
        for r in g.returns():
            rv = strip_casts(f, r.n['e']).get('v')
            defs = [g.points[d] for (v, d) in rd.get(r.id, ()) if v == out['id']]
            for dp in defs:
                if dp.n['k'] in ('call',) and not (dp.n.get('op') == '='):
                    # written by a callee through the reference (GetRawEnvironmentVariable, GetTimeoutFromString): see the duration rule
                    continue
                val = [vx for (vv, st, vx) in defs_in_node(f, dp.n) if vv == out['id']][0]
                if _is_const_default(f, val):
                    continue
                n_ret += 1
                # a parsed value
                if rv == 0:
                    bad = (r, dp, 'a parsed (possibly partial) value of the out-parameter survives to a "return false"')
                elif not endptrs and not erange_pins:
                    # no strto* / errno in this reader (boolean spellings, raw strings): what reaches "return true" is decided by
                    # comparisons with literals (C18.R6), not by a parse that can stop early
                    continue
                elif feasible_armed_reach(g, [dp], [x for x in defs if x is not dp], [r], pins=unconsumed_pins) is not None or \
                        feasible_armed_reach(g, [dp], [x for x in defs if x is not dp], [r], pins=erange_pins) is not None:
                    bad = (r, dp, 'a parsed value reaches "return true" without the whole string having been consumed / errno checked')
        ck.verdict(bad is None, rule, f, 'out-parameter', (bad[1].n if bad else None), 'the out-parameter holds a validated parse result or the default at every return' if bad is None else
                   '%s: %s' % (nm, bad[2]), path=None if bad is None else g.describe_path(g.path(bad[1], bad[0]) or []))
    # duration helpers: assignment only on a path that returns true
    for f in prog.functions('sdk::common::ConvertTimeout') + prog.functions('sdk::common::GetTimeoutFromString'):
        if len(f.params) < 2:
            continue
        g = Graph(prog, f, inline=None, sync_lambdas=False)
        out = f.params[1]
        asg = [p for p in g.points if p.n is not None and any(v == out['id'] and st for (v, st, vx) in defs_in_node(f, p.n)) and p.n['k'] != 'declstmt']
        rets_false = [r for r in g.returns() if strip_casts(f, r.n['e']).get('v') == 0]
        rets_true = [r for r in g.returns() if strip_casts(f, r.n['e']).get('v') == 1]
        bad = any(r.id in g.reachable_from([q for (q, _l) in a.succ]) for a in asg for r in rets_false)
        if f.name == 'ConvertTimeout':
            ok = bool(asg) and not bad and all(g.must_pass(r, asg) for r in rets_true)
        else:
            ok = not bad
        site = 'assign-iff-true' + ('<%s>' % _unit_name(f) if f.name == 'ConvertTimeout' else '')
        ck.verdict(ok, rule, f, site, asg[0].n if asg else None, 'the duration is assigned exactly on the paths that return true' if ok else
                   'the duration out-parameter can be assigned on a path that reports failure (or success is reported without assigning it)')


FLIP_ = {'<': '>', '>': '<', '<=': '>=', '>=': '<=', '==': '==', '!=': '!='}
RATIO = re.compile(r'std::ratio<(\d+)(?:, (\d+))?>')


def _unit_name(f):
    m = RATIO.search(f.key.split('ConvertTimeout<', 1)[1].split('>(', 1)[0])
    if not m:
        return '1/1'
    return '%s/%s' % (m.group(1), m.group(2) or '1')


def rule_r3(ck, prog, rule='C18.R3'):
    for nm in ('GetUintEnvironmentVariable', 'GetFloatEnvironmentVariable'):
        f = prog.function('sdk::common::' + nm)
        g = Graph(prog, f, inline=None, sync_lambdas=False)
        strs = [p for p in g.points if p.n is not None and p.n['k'] == 'call' and strip_targs(p.n.get('c', '')).rsplit('::', 1)[-1].startswith('strto')]
        zero = [p for p in g.points if p.n is not None and p.n['k'] == 'binop' and p.n['op'] == '=' and strip_casts(f, p.n['rhs']).get('v') == 0 and
                any(f.nodes[i]['k'] == 'call' and strip_targs(f.nodes[i].get('c', '')) == '__errno_location' for i in f.subtree(p.n['lhs']))]
        reads = [n for n in f.nodes if comparison(f, n['i']) and any(f.nodes[i]['k'] == 'call' and strip_targs(f.nodes[i].get('c', '')) == '__errno_location' for i in f.subtree(n['i']))]
        ok = bool(strs) and (not reads or all(g.must_pass(s, [z for z in zero if s.id in g.reachable_from([q for (q, _l) in z.succ])]) and
                                              any(s.id in g.reachable_from([q for (q, _l) in z.succ]) for z in zero) for s in strs))
        ck.verdict(ok, rule, f, 'errno-cleared-before-parse', strs[0].n if strs else None, 'errno = 0 dominates the strto* call whose errno is read' if ok else
                   '%s reads errno after strto* without clearing it first: a stale ERANGE from earlier makes a valid value fall back to the default' % nm)


def rule_r8(ck, prog, rule='C18.R8'):
    """numbers are decimal: every strto* call of the environment readers that takes a base passes the constant 10 (base 0 accepts
    "0x10" and reads "010" as eight; the documented syntax is digits)"""
    cnt = 0
    for nm in ('GetUintEnvironmentVariable', 'GetDurationEnvironmentVariable', 'GetFloatEnvironmentVariable'):
        for f in prog.functions('sdk::common::' + nm):
            for n in f.nodes:
                name = strip_targs(n.get('c', '') or '').rsplit('::', 1)[-1] if n['k'] == 'call' else ''
                if name in ('strtoul', 'strtoull', 'strtol', 'strtoll', 'strtoumax', 'strtoimax') and len(n.get('args', [])) >= 3:
                    b = strip_casts(f, n['args'][2]).get('v')
                    cnt += 1
                    ck.verdict(b == 10, rule, f, 'decimal-base:%s' % nm, n, 'parsed with base 10' if b == 10 else
                               '%s parses with base %s: hexadecimal / octal spellings ("0x10", "010") are accepted with another value than their digits say, although the documented syntax is decimal digits' % (nm, b if b is not None else '(not a constant)'))
    return cnt


def rule_r4(ck, prog, rule='C18.R4'):
    f = prog.function('sdk::common::GetTimeoutFromString')
    # (the digit loop may live in a file-local helper of the parser: file-local callees other than the unit conversion are inlined)
    g = Graph(prog, f, inline=lambda caller, call, callee, depth: bool(callee.d.get('local')) and callee.name != 'ConvertTimeout', sync_lambdas=False, max_depth=2)
    acc = [p for p in g.points if p.n is not None and p.n['k'] == 'binop' and p.n['op'] == '=' and strip_casts(p.f, p.n['lhs'])['k'] == 'ref' and
           any(p.f.nodes[i]['k'] == 'binop' and p.f.nodes[i]['op'] == '*' and p.f.nodes[p.f.nodes[i]['rhs']].get('v') == 10 for i in p.f.subtree(p.n['rhs']))]
    if not acc:
        ck.inconclusive(rule, f, 'accumulation-bounded', None, 'digit accumulation not found')
    else:
        vid = strip_casts(acc[0].f, acc[0].n['lhs'])['id']
        f_acc = acc[0].f

        def bound_edge(a, b, lab):
            if not lab or not isinstance(lab[0], int):
                return False
            core, pol = norm_cond(lab[1], lab[0])
            c = comparison(lab[1], core)
            if not c:
                return False
            sub = [lab[1].nodes[i] for i in lab[1].subtree(core)]
            has_v = any(n['k'] == 'ref' and n.get('id') == vid for n in sub)
            has_max = any(n['k'] == 'call' and strip_targs(n.get('c', '')).startswith('std::numeric_limits::max') for n in sub)
            return has_v and has_max
        ok = all(g.must_pass_edge(p, bound_edge) for p in acc)
        ck.verdict(ok, rule, f, 'accumulation-bounded', acc[0].n, 'v = v*10 + d only behind a comparison of v with the maximum' if ok else
                   'the digit accumulation v = v*10 + d is not guarded against overflow: a long digit string wraps to a garbage duration that is accepted')
    insts = prog.functions('sdk::common::ConvertTimeout')
    if not insts:
        # no shared conversion helper: every unit conversion in the parser itself must be guarded
        casts = [p for p in g.points if p.n is not None and p.n['k'] == 'call' and strip_targs(p.n.get('c', '')).endswith('duration_cast')]
        if not casts:
            raise AnalysisBroken('GetTimeoutFromString: no unit conversion found')
        for cp in casts:
            guarded = acc and g.must_pass_edge(cp, lambda a, b, lab: bool(lab and isinstance(lab[0], int) and comparison(lab[1], norm_cond(lab[1], lab[0])[0]) and
                                               any(f.nodes[i]['k'] == 'binop' and f.nodes[i]['op'] == '/' for i in f.subtree(lab[0]))))
            ck.verdict(bool(guarded), rule, f, 'unit-guard@%d' % cp.n['l'], cp.n, 'conversion behind a scaling bound' if guarded else
                       'the conversion of the parsed count to the clock duration is not guarded against overflow: large values wrap to a garbage duration that is accepted')
        return
    if len(insts) < 1:
        raise AnalysisBroken('ConvertTimeout: no instantiation')
    for cf in insts:
        m = RATIO.search(cf.key.split('ConvertTimeout<', 1)[1].split('>(', 1)[0])
        num, den = (int(m.group(1)), int(m.group(2) or 1)) if m else (1, 1)
        dm = RATIO.search(cf.params[1]['t'])
        dnum, dden = (int(dm.group(1)), int(dm.group(2) or 1)) if dm else (1, 1000000000)
        want = (num * dden) // (den * dnum)
        divs = [n for n in cf.nodes if n['k'] == 'binop' and n['op'] == '/' and 'v' in n and all(f2['k'] in ('ref', 'lit') for f2 in (strip_casts(cf, n['lhs']), strip_casts(cf, n['rhs'])))]
        site = 'unit-guard<%d/%d>' % (num, den)
        if want <= 1:
            ck.holds(rule, cf, site, None, 'unit not coarser than the clock tick: no scaling overflow possible')
            continue
        found = [n['v'] for n in divs]
        # the guard must be live (its first conjunct folds to true) and divide by the exact ratio
        gates = [n for n in cf.nodes if n['k'] == 'binop' and n['op'] == '>' and n.get('v') in (0, 1) and all('v' in cf.nodes[x] for x in (n['lhs'], n['rhs']))]
        live = any(n.get('v') == 1 for n in gates)
        ok = want in found and live
        ck.verdict(ok, rule, cf, site, divs[0] if divs else None, 'overflow guard divides by the tick ratio %d' % want if ok else
                   'the overflow guard of the %d/%d-second unit uses the factor %s (guard %s), the tick ratio is %d: values that overflow the clock duration are accepted with a wrapped result' %
                   (num, den, found or 'none', 'live' if live else 'dead', want))


def rule_r5(ck, prog, rule='C18.R5'):
    f = [x for x in prog.functions('sdk::logs::Logger::EmitLogRecord') if not x.d.get('inst')][0]
    sr = [n for n in f.nodes if n['k'] == 'call' and n.get('virt') and strip_targs(n.get('c', '')).endswith('Recordable::SetResource')]
    ok = bool(sr) and any(f.nodes[i]['k'] == 'call' and strip_targs(f.nodes[i].get('c', '')).endswith('LoggerContext::GetResource') for i in f.subtree(sr[0]['args'][0]))
    ck.verdict(ok, rule, f, 'log-record-resource', sr[0] if sr else None, 'log records take the provider context\'s resource' if ok else 'a log record does not receive its provider\'s resource')
    f = prog.function('sdk::metrics::MetricCollector::Produce')
    ws = [n for n in f.nodes if n['k'] == 'binop' and n['op'] == '=' and access_path(f, n['lhs'])[-1:] == ('resource_',)]
    ok = bool(ws) and any(f.nodes[i]['k'] == 'call' and strip_targs(f.nodes[i].get('c', '')).endswith('MeterContext::GetResource') for i in f.subtree(ws[0]['rhs']))
    ck.verdict(ok, rule, f, 'metric-batch-resource', ws[0] if ws else None, 'metric batches reference the provider context\'s resource' if ok else 'a metric batch does not reference its provider\'s resource')
    if ok:
        g = Graph(prog, f, inline=None, sync_lambdas=False)
        wp = [p for p in g.points if p.f is f and p.n is not None and p.n['i'] in {w['i'] for w in ws}]
        rets = g.returns()
        # the returns that hand out the batch object whose resource_ is assigned (a failure return of an empty result has no batch)
        bv = strip_casts(f, f.nodes[ws[0]['lhs']].get('base', -1)).get('id') if f.nodes[ws[0]['lhs']]['k'] == 'member' else None
        rets = [r for r in rets if bv is None or any(f.nodes[i]['k'] == 'ref' and f.nodes[i].get('id') == bv for i in f.subtree(r.n['i']))]
        reach = g.reachable_from(g.entry, avoid=wp)
        okp = bool(wp) and bool(rets) and not any(r.id in reach for r in rets)
        ck.verdict(okp, rule, f, 'metric-batch-resource-on-every-path', (rets[0].n if rets else None),
                   'every batch Produce returns carries the resource' if okp else
                   'a path through MetricCollector::Produce returns a batch without setting its resource (e.g. an empty collection): the exporter receives a null resource')
    f = [x for x in prog.funcs.values() if x.cls and x.cls.endswith('sdk::trace::Span') and x.kind == 'ctor'][0]
    sr = [n for n in f.nodes if n['k'] == 'call' and n.get('virt') and strip_targs(n.get('c', '')).endswith('Recordable::SetResource')]
    ok = bool(sr) and any(f.nodes[i]['k'] == 'call' and strip_targs(f.nodes[i].get('c', '')).endswith('Tracer::GetResource') for i in f.subtree(sr[0]['args'][0]))
    ck.verdict(ok, rule, f, 'span-resource', sr[0] if sr else None, 'spans take the tracer\'s (provider) resource' if ok else 'a span does not receive its provider\'s resource')
    # the resource is in place before any processor sees the span
    g = Graph(prog, f, inline=None, sync_lambdas=False)
    srp = [p for p in g.points if p.n is not None and p.n in sr]
    ons = [p for p in g.points if p.n is not None and p.n['k'] == 'call' and p.n.get('virt') and strip_targs(p.n.get('c', '')).endswith('SpanProcessor::OnStart')]
    ok = bool(srp) and bool(ons) and all(g.must_pass(p, srp) for p in ons)
    ck.verdict(ok, rule, f, 'span-resource-before-onstart', ons[0].n if ons else None, 'SetResource precedes OnStart' if ok else
               'the processors\' OnStart sees the span before it has received its provider\'s resource (a processor that reads the resource in OnStart gets the empty default)')


def rule_r2_disabled(ck, prog, rule='C18.R2'):
    """OTEL_SDK_DISABLED is a boolean setting: it is read through the (case-insensitive) boolean reader, and GetSdkDisabled is true
    exactly when the variable exists and the reader delivered true (decision table over the reader's two results)"""
    from ..symb import returns_under_pins, T, F
    f = prog.function('sdk::common::GetSdkDisabled')
    g = Graph(prog, f, inline=None, sync_lambdas=False)
    reads = [p for p in g.points if p.n is not None and p.n['k'] == 'call' and strip_targs(p.n.get('c', '')).endswith('common::GetBoolEnvironmentVariable')]
    others = [n for n in f.nodes if n['k'] == 'call' and 'EnvironmentVariable' in strip_targs(n.get('c', '')) and not strip_targs(n.get('c', '')).endswith('GetBoolEnvironmentVariable')]
    ok = len(reads) == 1 and not others
    why = 'GetSdkDisabled does not read the variable through GetBoolEnvironmentVariable: the value is no longer matched case-insensitively ("TRUE", "True" keep the SDK enabled)'
    if ok:
        call = reads[0].n
        out = strip_casts(f, call['args'][1])
        table = {}
        for exists in (T, F):
            for value in (T, F):
                table[(exists, value)] = returns_under_pins(g, {call['i']: exists}, assign_at={call['i']: {out.get('id'): value}})
        want = {(T, T): {T}, (T, F): {F}, (F, T): {F}, (F, F): {F}}
        ok = out['k'] == 'ref' and table == want
        why = 'GetSdkDisabled is not "the variable exists and the boolean reader delivered true": (exists, value) -> %s' % \
            ', '.join('%s%s->%s' % ('T' if e else 'F', 'T' if v else 'F', sorted(str(x) for x in r)) for (e, v), r in sorted(table.items(), key=str))
    ck.verdict(ok, rule, f, 'sdk-disabled-through-bool-reader', reads[0].n if reads else None,
               'OTEL_SDK_DISABLED is read by GetBoolEnvironmentVariable; the result is true exactly for (exists, true)' if ok else why)


UNIT_TICKS = {'ns': (1, 10**9), 'us': (1, 10**6), 'ms': (1, 1000), 's': (1, 1), 'm': (60, 1), 'h': (3600, 1),
              # no unit: seconds. The specification says milliseconds; the code documents seconds as its (kept) behaviour, and
              # the property names only the unit spellings - the table records today's documented default.
              '': (1, 1)}


def _ratio_of(text):
    """period of the std::chrono::duration named in the template argument list of a call key (`name<ARGS>(params)`), as (num, den)"""
    i = text.find('<')
    j = text.find('(')
    if i < 0 or (0 <= j < i):
        return None
    depth, k = 0, i
    while k < len(text):
        if text[k] == '<':
            depth += 1
        elif text[k] == '>':
            depth -= 1
            if depth == 0:
                break
        k += 1
    targs = text[i + 1:k]
    # duration_cast<To, Rep, Period>(from): the source unit is the last `duration<..>` of the list; ConvertTimeout<Unit>: the only one
    parts = [m for m in re.finditer(r'std::chrono::duration<', targs)]
    if not parts:
        return None
    m = re.search(r'std::ratio<\s*(\d+)\s*(?:,\s*(\d+)\s*)?>', targs[parts[-1].start():] if len(parts) == 1 else targs)
    if len(parts) > 1:
        return None
    if m:
        return (int(m.group(1)), int(m.group(2) or 1))
    return (1, 1)


def rule_r9(ck, prog, rule='C18.R9'):
    """duration syntax as a table: each unit spelling is compared with the *whole* rest of the input and converts with the period
    of that unit; a conversion is reached only when at least one non-zero digit was read (the `result != 0` gate is what rejects
    inputs without digits)"""
    f = prog.function('sdk::common::GetTimeoutFromString')
    g = Graph(prog, f, inline=None, sync_lambdas=False)
    rd = reaching_defs(g)
    convs = [p for p in g.points if p.n is not None and p.n['k'] == 'call' and
             (strip_targs(p.n.get('c', '')).endswith('common::ConvertTimeout') or strip_targs(p.n.get('c', '')).endswith('duration_cast'))]
    cmps = []
    for n in f.nodes:
        if n['k'] == 'call' and n.get('op') in ('==', '!=') and len(n.get('args', [])) == 2:
            lits = sorted({(a, f.nodes[i].get('s')) for a in n['args'] for i in list(f.subtree(a)) + [a] if f.nodes[i]['k'] == 'str'})
            if len(lits) == 1:
                other = [a for a in n['args'] if a != lits[0][0]][0]
                cmps.append((n, lits[0][1], other, 'view'))
        elif n['k'] == 'call' and strip_targs(n.get('c', '') or '').rsplit('::', 1)[-1] == 'strcmp' and len(n.get('args', [])) == 2:
            lits = sorted({(a, f.nodes[i].get('s')) for a in n['args'] for i in list(f.subtree(a)) + [a] if f.nodes[i]['k'] == 'str'})
            if len(lits) == 1:
                cmps.append((n, lits[0][1], [a for a in n['args'] if a != lits[0][0]][0], 'strcmp'))
    for n in f.nodes:
        # `unit.empty()` is the comparison with ""
        if n['k'] == 'call' and strip_targs(n.get('c', '') or '').rsplit('::', 1)[-1] == 'empty' and n.get('obj') is not None and not n.get('args') and \
                'string_view' in (f.nodes[n['obj']].get('t') or '') + (strip_casts(f, n['obj']).get('t') or ''):
            cmps.append((n, '', n['obj'], 'empty'))
    if len(cmps) < 3 or not convs:
        ck.inconclusive(rule, f, 'unit-table', None, 'unit comparisons with string literals / conversions not recognised (%d comparisons, %d conversions)' % (len(cmps), len(convs)))
        return
    pm = f.parent_map()
    cmp_ids = set()

    def cond_of(n):
        # the condition node whose truth means "equal": the == call itself, or the enclosing `strcmp(..) == 0` / `!strcmp(..)`
        if strip_targs(n.get('c', '') or '').rsplit('::', 1)[-1] == 'empty':
            return n['i'], True
        if n.get('op') in ('==', '!='):
            return n['i'], (n['op'] == '==')
        x = n['i']
        while x in pm and f.nodes[pm[x]]['k'] in ('cast', 'paren'):
            x = pm[x]
        if x in pm:
            par = f.nodes[pm[x]]
            c = comparison(f, par['i'])
            if c and c[0] in ('==', '!='):
                return par['i'], (c[0] == '==')
            if par['k'] == 'unop' and par['op'] == '!':
                return par['i'], True
        return n['i'], False
    seen_units = set()
    for (n, lit, other, how) in cmps:
        ci, eq_truth = cond_of(n)
        cmp_ids.add(ci)
    for (n, lit, other, how) in sorted(cmps, key=lambda x: x[0]['l']):
        ci, eq_truth = cond_of(n)
        site = 'unit-table:"%s"' % lit
        seen_units.add(lit)
        if lit not in UNIT_TICKS:
            ck.violation(rule, f, site, n, 'the duration parser accepts the unit spelling "%s", which is not one of the documented ns/us/ms/s/m/h' % lit)
            continue
        # whole-string comparison: the compared text is the view / pointer of everything left after the digits
        on = strip_casts(f, other)
        while on['k'] == 'construct' and on.get('copymove') and on.get('args'):
            on = strip_casts(f, on['args'][0])
        whole = None
        if on['k'] == 'ref' and on.get('sk') in ('local', 'param'):
            init = once_init(f, on['i'])
            if init is on or (init['k'] == 'construct' and 'const char *' in (init.get('ck') or '') and len(init.get('args', [])) == 1) or init['k'] == 'ref':
                whole = True
            else:
                whole = None
        elif on['k'] == 'call' and strip_targs(on.get('c', '') or '').rsplit('::', 1)[-1] in ('substr', 'first', 'remove_suffix'):
            whole = False
        if whole is False:
            ck.violation(rule, f, site, n, 'the unit "%s" is compared with a part of the remaining text only (%s): inputs with trailing garbage after the unit are accepted' % (lit, strip_targs(on['c']).rsplit('::', 1)[-1]))
            continue
        if whole is None:
            ck.inconclusive(rule, f, site, n, 'what is compared with "%s" is not recognised as the whole rest of the input' % lit)
            continue
        # the conversion reached over the "equal" edge, before any other unit comparison
        start = [q for p_ in g.points for (q, lab) in p_.succ if lab and isinstance(lab[0], int) and lab[1] is f and
                 norm_cond(f, lab[0])[0] == norm_cond(f, ci)[0] and ((lab[2] if norm_cond(f, lab[0])[1] == norm_cond(f, ci)[1] else not lab[2]) is eq_truth)]
        if not start:
            ck.inconclusive(rule, f, site, n, 'the branch taken when the unit is "%s" was not found' % lit)
            continue
        others = [p_ for p_ in g.points if p_.n is not None and p_.f is f and p_.n['i'] in cmp_ids and p_.n['i'] != ci]
        r = g.reachable_from(start, avoid=others)
        got = [c for c in convs if c.id in r or c in start]
        ratios = {_ratio_of(c.n.get('ck') or '') for c in got}
        if len(got) == 0 or None in ratios:
            ck.inconclusive(rule, f, site, n, 'no conversion with a recognisable period is reached when the unit is "%s"' % lit)
            continue
        want = UNIT_TICKS[lit]
        ok = ratios == {want}
        ck.verdict(ok, rule, f, site, got[0].n, '"%s" converts with period %d/%d s' % (lit, want[0], want[1]) if ok else
                   'a duration written with the unit "%s" is converted with period %s instead of %d/%d s: the configured timeout is off by that factor' %
                   (lit, ', '.join('%d/%d' % x for x in sorted(ratios)), want[0], want[1]))
    missing = sorted(set(UNIT_TICKS) - seen_units)
    if missing == ['']:
        # the empty unit may be recognised by an idiom other than a comparison with "" (a test of the terminator, a fall-through)
        ck.inconclusive(rule, f, 'unit-table:complete', None, 'no comparison with the empty unit was recognised (another idiom may handle it)')
        missing = None
    if missing is not None:
        ck.verdict(not missing, rule, f, 'unit-table:complete', None, 'all of ns/us/ms/s/m/h and the empty unit are recognised' if not missing else
                   'the documented unit spelling(s) %s are not recognised by the duration parser' % ', '.join('"%s"' % x for x in missing))
    # at least one digit: every conversion is behind "result != 0"
    acc = [p for p in g.points if p.n is not None and p.n['k'] == 'binop' and p.n['op'] in ('=', '+=') and p.f is f and
           any(f.nodes[i]['k'] == 'binop' and f.nodes[i]['op'] == '*' for i in f.subtree(p.n['i']))]
    if not acc:
        ck.inconclusive(rule, f, 'conversion-needs-a-digit', None, 'digit accumulation not found')
        return
    vid = strip_casts(f, acc[0].n['lhs']).get('id')
    vname = strip_casts(f, acc[0].n['lhs']).get('name')

    def nonzero_edge(a, b, lab):
        if not lab or not isinstance(lab[0], int) or lab[1] is not f:
            return False
        rel = relation(g, rd, f, lab[0], a.ctx, lab[2])
        if not rel:
            return False
        key1 = frozenset({('local:%s:%s' % (vid, vname), 1)})
        key2 = frozenset({('local:%s:%s' % (vid, vname), 1), ('1', -1)})
        return rel in (('!=0', key1), ('>=0', key2))
    bad = [c for c in convs if not g.must_pass_edge(c, nonzero_edge)]
    flags = [n for n in f.nodes if n['k'] == 'declstmt' and any(d['t'] == 'bool' for d in n['decls'])]
    if bad and flags:
        ck.inconclusive(rule, f, 'conversion-needs-a-digit', bad[0].n, 'the conversion is not behind "%s != 0"; a boolean local may carry the "digit seen" fact: not decided' % vname)
    else:
        ck.verdict(not bad, rule, f, 'conversion-needs-a-digit', (bad or convs)[0].n, 'every conversion is behind "%s != 0": a text without a (non-zero) digit is rejected' % vname if not bad else
                   'a conversion is reachable with %s == 0, i.e. without any digit read: "ms", "s", "" ... parse successfully as a zero duration instead of falling back to the default' % vname)


_TMAX = {'unsigned int': 2**32 - 1, 'uint32_t': 2**32 - 1, 'std::uint32_t': 2**32 - 1, 'int': 2**31 - 1, 'int32_t': 2**31 - 1, 'std::int32_t': 2**31 - 1,
         'unsigned long': 2**64 - 1, 'unsigned long long': 2**64 - 1, 'long': 2**63 - 1, 'long long': 2**63 - 1, 'unsigned short': 65535, 'short': 32767}


def rule_r10(ck, prog, rule='C18.R10'):
    """unsigned integers within 32 bits, exactly: the narrowing store into the 32-bit out-parameter is behind a bound of the parsed
    value that equals 2^32-1 (tighter: valid settings are refused; looser or absent: a larger number is truncated into a wrong value)"""
    f = prog.function('sdk::common::GetUintEnvironmentVariable')
    g = Graph(prog, f, inline=None, sync_lambdas=False)
    out = f.params[1]
    stores = [p for p in g.points if p.f is f and p.n is not None and p.n['k'] == 'binop' and p.n['op'] == '=' and strip_casts(f, p.n['lhs']).get('id') == out['id'] and
              strip_casts(f, p.n['rhs'])['k'] == 'ref' and strip_casts(f, p.n['rhs']).get('sk') == 'local']
    wide = [p for p in stores if any(w in (strip_casts(f, p.n['rhs']).get('t') or '') for w in ('long', 'size_t', 'uint64', 'int64'))]
    if not wide:
        ck.inconclusive(rule, f, 'narrowing-behind-32-bit-bound', None, 'no store of a wider parsed local into the 32-bit out-parameter found')
        return

    def const_of(idx):
        n = strip_casts(f, idx)
        if 'v' in n and isinstance(n['v'], int):
            return n['v']
        if n['k'] == 'call' and strip_targs(n.get('c', '')).startswith('std::numeric_limits::max'):
            import re
            m = re.search(r'numeric_limits<([^>]*)>', n.get('ck') or n.get('c') or '')
            return _TMAX.get(m.group(1).strip()) if m else None
        return None
    for sp in wide:
        vid = strip_casts(f, sp.n['rhs'])['id']
        bounds = []

        def bound_edge(a, b, lab):
            if not lab or not isinstance(lab[0], int) or lab[1] is not f:
                return False
            core, pol = norm_cond(f, lab[0])
            c = comparison(f, core)
            if not c or c[0] not in ('<', '>', '<=', '>='):
                return False
            out_ = lab[2] if pol else not lab[2]
            l, r = strip_casts(f, c[1]), strip_casts(f, c[2])
            op = c[0]
            if r.get('id') == vid:
                # const OP var  ->  var OP' const
                l, r = r, l
                op = {'<': '>', '>': '<', '<=': '>=', '>=': '<='}[op]
                kc = const_of(c[1])
            elif l.get('id') == vid:
                kc = const_of(c[2])
            else:
                return False
            if kc is None:
                bounds.append(None)
                return True
            if not out_:
                op = {'<': '>=', '>': '<=', '<=': '>', '>=': '<'}[op]
            if op == '<=':
                bounds.append(kc)
                return True
            if op == '<':
                bounds.append(kc - 1)
                return True
            return False
        guarded = g.must_pass_edge(sp, bound_edge)
        ks = [b for b in bounds if b is not None]
        if guarded and None in bounds and not ks:
            ck.inconclusive(rule, f, 'narrowing-behind-32-bit-bound', sp.n, 'the upper bound of the parsed value does not fold to a constant')
            continue
        k = min(ks) if ks else None
        ok = bool(guarded) and k == 2**32 - 1
        ck.verdict(ok, rule, f, 'narrowing-behind-32-bit-bound', sp.n, 'the parsed value is stored only when it is <= 4294967295' if ok else
                   ('the parsed value is narrowed to 32 bits without an upper bound in front: a number above 4294967295 is truncated to a wrong setting instead of falling back to the default' if not guarded or k is None else
                    ('numbers above %d are refused although they fit in 32 bits' % k if k < 2**32 - 1 else 'numbers up to %d pass the bound and are truncated to 32 bits' % k)))


def run(ck, prog):
    ck.doc('C18.R1', 'Merge orientation/schema/constness; Create chain order; service.name fallback; pair split at the first =; service.name always present', 8)
    ck.doc('C18.R2', 'out-parameter typestate of the environment readers and duration helpers; OTEL_SDK_DISABLED through the boolean reader', 13)
    ck.doc('C18.R3', 'errno cleared before every strto* whose errno is read', 2)
    ck.doc('C18.R4', 'digit accumulation bounded; per-unit overflow guard uses the exact tick ratio', 7)
    ck.doc('C18.R5', 'span / log record / metric batch take the provider\'s resource, before a processor sees them; every returned batch carries it', 5)
    ck.doc('C18.R6', 'boolean spellings: true is stored only behind a whole-string case-insensitive match; the flag is never computed from characters of the text', 2)
    ck.doc('C18.R8', 'integer readers parse with base 10', 1)
    ck.doc('C18.R9', 'duration syntax table: every unit spelling compared with the whole rest of the input and converted with its own period; all documented units present; no conversion without a digit', 9)
    ck.doc('C18.R10', 'the narrowing store of the unsigned reader is behind the exact 32-bit bound', 1)
    ck.doc('C18.R7', 'key=value lists: every token with a separator is stored for every key/value length (region table)', 1)
    with ck.canary('C18.R2'):
        _canary(ck, prog)
    rule_r1(ck, prog)
    rule_r2(ck, prog)
    rule_r2_disabled(ck, prog)
    rule_r3(ck, prog)
    rule_r4(ck, prog)
    rule_r5(ck, prog)
    rule_r6(ck, prog)
    rule_r7(ck, prog)
    rule_r8(ck, prog)
    rule_r9(ck, prog)
    rule_r10(ck, prog)
    return {}


def _canary(ck, prog):
    f = prog.function('canary::c18::BadUint')
    g = Graph(prog, f, inline=None, sync_lambdas=False)
    rd = reaching_defs(g)
    out = f.params[1]
    for r in g.returns():
        for (v, d) in rd.get(r.id, ()):
            if v != out['id']:
                continue
            dp = g.points[d]
            val = [vx for (vv, st, vx) in defs_in_node(f, dp.n) if vv == out['id']][0]
            if not _is_const_default(f, val) and strip_casts(f, r.n['e']).get('v') == 0:
                ck.violation('C18.R2', f, 'out-parameter', dp.n, 'canary: partial value survives to return false')
