"""C12 - sampling is consistent: ratio sampling is a function of trace id and ratio; parent-based follows the parent."""
import math

from ..ir import AnalysisBroken, strip_targs, qmatch
from ..graph import Graph
from ..expr import access_path, path_str, reaching_defs, norm_cond, origins, leaves, defs_in_node
from ..callgraph import CallGraph
from ..symb import explore_pinned
from .common import strip_casts, short, comparison, FLIP, subtree_through_locals, once_init, same_class_inline

UNITS = ['sdk/src/trace/samplers/trace_id_ratio.cc', 'sdk/src/trace/samplers/parent.cc', 'sdk/src/trace/tracer.cc']
DRIVERS = ['trace_headers.cc']
CANARIES = ['c12_canary.cc']

EXPLANATION = (
    'C12.R1 (dependence/effect): the decision of TraceIdRatioBasedSampler::ShouldSample depends only on the trace_id '
    'parameter and the threshold member; the threshold member is written only in the constructor from the ratio; '
    'everything reachable is a file-local helper or a pure math leaf (memcpy, ldexp, modf) - no global, static, clock or '
    'random source. C12.R2 (guards): ratio <= 0 returns 0 and ratio >= 1 returns the maximum in the threshold mapping; a '
    'zero threshold drops; sample <=> f(trace id) <= threshold; the id side and the ratio side end in the same mapping '
    'function. C12.R2b (interval analysis of the threshold arithmetic): where a shifted high part is combined with a low '
    'part whose interval can reach the shifted bits, the combination must carry (+), a bitwise OR would lose the carry and '
    'break monotonicity. C12.R3 (decision table): ParentBasedSampler consults its delegate only on the invalid-parent edge '
    'and forwards all six arguments; for a valid parent the branch is exactly the parent\'s sampled predicate, '
    'RECORD_AND_SAMPLE on its true edge and DROP on the other, both with the parent\'s trace state; AlwaysOn/AlwaysOff '
    'return their constant decision on every path.')
ROUND2_EXPLANATION = (' C12.R1 also: the argument of the threshold mapping in the constructor, folded for twelve sample ratios, is <= 0 / the ratio / >= 1. C12.R2b also: no integral conversion in the mapping is narrower than the interval of its operand; with (h, fr) = modf(x) the threshold equals x * (2^k + 1), which must stay below 2^64 (exact arithmetic). Prerequisites C05.R2-R4 are evaluated on Tracer::StartSpan.')
EXPLANATION += ROUND2_EXPLANATION
NOT_DECIDED = 'monotonicity of the floating-point threshold computation beyond the carry rule; statistical quality of the ratio.'

PURE_LEAVES = ('memcpy', 'std::memcpy', 'ldexp', 'std::ldexp', 'modf', 'std::modf', 'std::to_string', 'std::operator+',
               'std::basic_string::operator=', 'std::basic_string::basic_string', 'std::basic_string::~basic_string')


def _decision_of(f, idx):
    """enumerator name of the decision in a `return {Decision::X, ...}` expression, else None"""
    for i in f.subtree(idx):
        n = f.nodes[i]
        if n['k'] == 'ref' and n.get('sk') == 'enum' and 'Decision::' in (n.get('qn') or ''):
            return n['qn'].rsplit('::', 1)[-1]
    return None


def _decisions_under(g, f, ret_idx, pins):
    """set of Decision enumerators the return at node ret_idx can yield under pins: read off the return expression, or - when the
    decision travels through an enum local (single-exit form) - off the definitions of that local that can be the last one before
    the return on a path feasible under the pins; '?' for anything not understood"""
    from ..symb import feasible_reach, feasible_armed_reach
    d = _decision_of(f, f.nodes[ret_idx]['e'])
    if d is not None:
        return {d}
    refs = [f.nodes[i] for i in f.subtree(f.nodes[ret_idx]['e']) if f.nodes[i]['k'] == 'ref' and f.nodes[i].get('sk') == 'local' and 'Decision' in (f.nodes[i].get('t') or '')]
    if len({r['id'] for r in refs}) != 1:
        return {'?'}
    vid = refs[0]['id']
    rp = [p for p in g.points if p.f is f and p.n is not None and p.n['i'] == ret_idx]
    defs = []
    for p in g.points:
        if p.f is not f or p.n is None:
            continue
        for (v, strong, vx) in defs_in_node(f, p.n):
            if v == vid:
                defs.append((p, _decision_of(f, vx) if vx is not None and vx >= 0 else None, strong))
    out = set()
    for (p, val, strong) in defs:
        others = [q for (q, _v, _s) in defs if q is not p]
        if rp and feasible_reach(g, [g.entry], [p], pins=pins) is not None and feasible_armed_reach(g, [p], others, rp, pins=pins) is not None:
            out.add(val if (val is not None and strong) else '?')
    return out or {'?'}


def rule_r1(ck, prog, cg, cls='sdk::trace::TraceIdRatioBasedSampler', rule='C12.R1'):
    rec = prog.record(cls)
    fs = [f for f in prog.funcs.values() if f.cls == rec['qn'] and f.name == 'ShouldSample']
    if not fs:
        raise AnalysisBroken('%s::ShouldSample vanished' % cls)
    f = fs[0]
    used_params = {n['name'] for n in f.nodes if n['k'] == 'ref' and n.get('sk') == 'param'}
    fields = {access_path(f, n['i'])[1] for n in f.nodes if n['k'] == 'member' and n.get('mk') == 'field' and access_path(f, n['i'])[0] == 'this' and len(access_path(f, n['i'])) == 2}
    extra = used_params - {'trace_id'}
    ok = not extra and 'trace_id' in used_params
    ck.verdict(ok, rule, f, 'depends-on-trace-id-only', None,
               'only the trace_id parameter is read' if ok else
               'the ratio decision reads parameter(s) %s: participants of one trace (different parents, names, kinds) can disagree' % ','.join(sorted(extra)))
    thr = [fd['name'] for fd in rec['fields'] if fd['t'] in ('unsigned long', 'const unsigned long', 'uint64_t')]
    ok = fields <= set(thr) and bool(fields)
    ck.verdict(ok, rule, f, 'reads-threshold-only', None, 'only the threshold member is read' if ok else 'the decision reads member(s) %s besides the threshold' % ','.join(sorted(fields - set(thr))))
    # effect: reachable functions are local helpers / pure leaves, no mutable global state
    reach = cg.reachable([f.key])
    bad = []
    for k in reach:
        fn = prog.funcs[k]
        q = strip_targs(fn.qn)
        if fn is not f and not fn.d.get('local') and not q.startswith('opentelemetry::trace::') and not q.startswith('opentelemetry::nostd::') \
                and not q.startswith('opentelemetry::sdk::trace::SamplingResult') and not q.startswith('std::'):
            bad.append('calls %s' % q)
        for n in fn.nodes:
            if n['k'] == 'ref' and n.get('sk') in ('global', 'static_local', 'tls') and 'v' not in n and not (n.get('qn') or '').endswith('kSize'):
                g = prog.globals.get(n.get('qn'))
                if g is None or not (g.get('const') or g.get('constexpr')):
                    bad.append('reads %s' % (n.get('qn') or n['name']))
            if n['k'] == 'call' and not n.get('ck') in prog.funcs:
                c = strip_targs(n.get('c', '') or '')
                if c and not (c in PURE_LEAVES or c.startswith('std::') and c.rsplit('::', 1)[-1] in ('memcpy', 'ldexp', 'modf')
                              or c.startswith('opentelemetry::') or c.startswith('std::unique_ptr') or c.startswith('std::map') or c.startswith('std::allocator')
                              or c.startswith('std::_') or c.startswith('std::shared_ptr') or c.startswith('std::initializer_list')):
                    if any(x in c for x in ('rand', 'clock', 'time', 'now', 'getenv', 'thread')):
                        bad.append('calls %s' % c)
    ck.verdict(not bad, rule, f, 'pure', None,
               '%d reachable functions, no global/static/clock/random source' % len(reach) if not bad else
               'the ratio decision is not a pure function of (trace id, threshold): %s' % '; '.join(sorted(set(bad))[:3]))
    # threshold written only in the constructor, from the ratio
    writers = []
    for m in [x for x in prog.funcs.values() if x.cls == rec['qn']]:
        for n in m.nodes:
            if n['k'] == 'binop' and n['op'].endswith('=') and n['op'] not in ('==', '!=', '<=', '>=') and \
                    access_path(m, n['lhs'])[:1] == ('this',) and access_path(m, n['lhs'])[-1] in thr:
                writers.append(m)
        for b in m.blocks:
            for e in b['el']:
                if isinstance(e, dict) and e.get('init') in thr:
                    lv = leaves(m, e['e']) if 'e' in e else set()
                    okc = any(l[0] == 'call' and l[1].endswith('CalculateThreshold') for l in lv) and ('param', 'ratio') in lv
                    ck.verdict(okc, rule, m, 'threshold-from-ratio', None,
                               'threshold_ = CalculateThreshold(ratio)' if okc else 'the threshold is not computed from the ratio by the shared mapping function')
    ck.verdict(not writers, rule, f, 'threshold-immutable', None, 'threshold written only by the constructor initialiser' if not writers else
               'the threshold is modified in %s: decisions for one ratio change over time' % short(writers[0]))
    return f


def _float_edge(f, lab, pname, op_want, const):
    """edge predicate helper: the edge is taken exactly when `pname op_want const` (float compare)"""
    if not lab or not isinstance(lab[0], int):
        return False
    core, pol = norm_cond(lab[1], lab[0])
    c = comparison(lab[1], core)
    if not c:
        return False
    op, l, r = c
    ln, rn = strip_casts(lab[1], l), strip_casts(lab[1], r)
    if rn['k'] == 'ref' and rn.get('name') == pname:
        op, ln, rn = FLIP[op], rn, ln
    if not (ln['k'] == 'ref' and ln.get('name') == pname):
        return False
    v = rn.get('fv', rn.get('v'))
    if v is None or float(v) != const:
        return False
    truth = lab[2] if pol else (not lab[2])
    neg = {'<': '>=', '>': '<=', '<=': '>', '>=': '<', '==': '!=', '!=': '=='}
    eff = op if truth else neg[op]
    return eff == op_want


def rule_r2(ck, prog, cg, f_should, rule='C12.R2'):
    ct = prog.function('CalculateThreshold')
    g = Graph(prog, ct, inline=None, sync_lambdas=False)
    pname = ct.params[0]['name']
    rets = g.returns()
    zero = [r for r in rets if strip_casts(ct, r.n['e']).get('v') == 0]
    mx = [r for r in rets if strip_casts(ct, r.n['e']).get('vs') == '18446744073709551615' or strip_casts(ct, r.n['e']).get('v') == -1
          or ct.nodes[r.n['e']].get('vs') == '18446744073709551615']
    other = [r for r in rets if r not in zero and r not in mx]
    ok = bool(zero) and all(g.must_pass_edge(r, lambda a, b, lab: _float_edge(ct, lab, pname, '<=', 0.0)) for r in zero)
    ck.verdict(ok, rule, ct, 'ratio<=0=>0', zero[0].n if zero else None, 'threshold 0 exactly behind ratio <= 0' if ok else 'the mapping does not return 0 exactly for ratio <= 0 (e.g. < instead of <=)')
    ok = bool(mx) and all(g.must_pass_edge(r, lambda a, b, lab: _float_edge(ct, lab, pname, '>=', 1.0)) for r in mx)
    ck.verdict(ok, rule, ct, 'ratio>=1=>max', mx[0].n if mx else None, 'maximum threshold exactly behind ratio >= 1' if ok else 'the mapping does not return the maximum exactly for ratio >= 1 (ratio 1.0 would drop traces)')
    ok = bool(other) and all(g.must_pass_edge(r, lambda a, b, lab: _float_edge(ct, lab, pname, '>', 0.0)) and
                             g.must_pass_edge(r, lambda a, b, lab: _float_edge(ct, lab, pname, '<', 1.0)) for r in other)
    ck.verdict(ok, rule, ct, 'general-case-inside-(0,1)', other[0].n if other else None, 'arithmetic only for 0 < ratio < 1' if ok else 'the threshold arithmetic can run for ratio outside (0,1)')
    # ShouldSample
    f = f_should
    g2 = Graph(prog, f, inline=None, sync_lambdas=False)
    rets = g2.returns()
    samp = [r for r in rets if _decision_of(f, r.n['e']) == 'RECORD_AND_SAMPLE']
    drop = [r for r in rets if _decision_of(f, r.n['e']) == 'DROP']

    # decision table over Z = "threshold_ == 0" and L = "f(trace id) <= threshold_": the comparisons are pinned per scenario
    # (a strict or reversed comparison cannot be decided from L and stays open, which makes the wrong decision reachable);
    # named booleans, conjunctions and early returns are folded by the path explorer
    def scen_pins(z, l):
        pins = {}
        for n in f.nodes:
            c = comparison(f, n['i'])
            if not c:
                if n['k'] == 'member' and n.get('name', '').startswith('threshold'):
                    pins[n['i']] = not z      # `if (threshold_)`
                continue
            op, a, b = c
            an, bn = strip_casts(f, a), strip_casts(f, b)
            has_call = lambda i_: any(f.nodes[k]['k'] == 'call' and strip_targs(f.nodes[k].get('c', '')).endswith('CalculateThresholdFromBuffer') for k in subtree_through_locals(f, i_))
            if bn['k'] == 'member' and an['k'] == 'lit':
                op, a, b, an, bn = FLIP[op], b, a, bn, an
            if an['k'] == 'member' and bn['k'] == 'lit' and bn.get('v') == 0:
                v = {'==': z, '!=': not z, '>': not z, '<=': z, '>=': True, '<': False}.get(op)
                if v is not None:
                    pins[n['i']] = v
                continue
            if an['k'] == 'member' and has_call(b):
                op, a, b = FLIP[op], b, a
            elif not (has_call(a) and strip_casts(f, b)['k'] == 'member'):
                continue
            v = {'<=': l, '>': not l}.get(op)
            if v is not None:
                pins[n['i']] = v
        return pins
    table = {}
    for z in (True, False):
        for l in (True, False):
            sp_ = scen_pins(z, l)
            rets_, _seen = explore_pinned(g2, sp_)
            table[(z, l)] = set()
            for (ri, _v, _e) in rets_:
                table[(z, l)] |= _decisions_under(g2, f, ri, sp_) if ri is not None else {'?'}
    ok = table[(False, True)] == {'RECORD_AND_SAMPLE'}
    ck.verdict(ok, rule, f, 'sample-iff-id<=threshold', samp[0].n if samp else None,
               'RECORD_AND_SAMPLE exactly for threshold != 0 and f(trace id) <= threshold' if ok else 'sampling is not decided by f(trace id) <= threshold (strict comparison or reversed operands change which traces are kept): with a non-zero threshold and id <= threshold the decisions are %s' % sorted(table[(False, True)]))
    ok = table[(True, True)] == {'DROP'} and table[(True, False)] == {'DROP'} and table[(False, False)] == {'DROP'}
    ck.verdict(ok, rule, f, 'drop-on-zero-threshold-or-above', drop[0].n if drop else None,
               'DROP exactly for threshold == 0 or id above threshold' if ok else 'DROP is not exactly the zero-threshold / above-threshold case (ratio 0 could sample the all-zero-prefix ids): %s' %
               ', '.join('%s/%s -> %s' % ('zero' if z else 'nonzero', 'id<=thr' if l else 'id>thr', '|'.join(sorted(str(x) for x in v))) for (z, l), v in sorted(table.items())))
    # same mapping on both sides
    cb = prog.function('CalculateThresholdFromBuffer')
    ok = ct.key in cg.calls.get(cb.key, ()) and cb.key in cg.calls.get(f.key, ())
    ck.verdict(ok, rule, cb, 'same-mapping-both-sides', None, 'id side ends in the same CalculateThreshold as the ratio side' if ok else 'trace id and ratio are mapped by different functions: decisions are not a consistent threshold comparison')
    return ct


# ---------------------------------------------------------------- tiny interval evaluator (C12.R2b)
class Itv:
    __slots__ = ('lo', 'hi')

    def __init__(self, lo, hi):
        self.lo, self.hi = lo, hi

    def __repr__(self):
        return '[%g, %g]' % (self.lo, self.hi)


def _itv(g, rd, f, idx, env, depth=0):
    if idx is None or idx < 0 or depth > 20:
        return None
    n = f.nodes[idx]
    k = n['k']
    if k == 'lit':
        v = n.get('fv', n.get('v'))
        if v is None and 'vs' in n:
            v = int(n['vs'])
        return Itv(float(v), float(v)) if v is not None else None
    if 'vs' in n:
        return Itv(float(int(n['vs'])), float(int(n['vs'])))
    if 'v' in n and k != 'ref':
        return Itv(float(n['v']) if n['v'] >= 0 else float(n['v'] + 2 ** 64), float(n['v']) if n['v'] >= 0 else float(n['v'] + 2 ** 64))
    if k == 'cast':
        x = _itv(g, rd, f, n['e'], env, depth + 1)
        if x is None:
            return None
        if 'unsigned' in (n.get('t') or '') or 'uint' in (n.get('t') or ''):
            return Itv(math.floor(max(x.lo, 0)), math.floor(x.hi))
        return x
    if k == 'ref':
        if n.get('id') in env:
            return env[n['id']]
        if 'v' in n:
            return Itv(float(n['v']), float(n['v']))
        if n.get('sk') == 'local':
            pt = g.point_of.get((id(g.root_ctx), idx))
            defs = [g.points[d] for (v, d) in rd.get(pt.id, ()) if v == n.get('id')] if pt else []
            out = None
            for dp in defs:
                for (vid, strong, vx) in defs_in_node(f, dp.n):
                    if vid != n.get('id'):
                        continue
                    if vx is None:
                        continue
                    if vx == dp.n['i']:
                        # written through a pointer argument (modf's integral part)
                        c = strip_targs(dp.n.get('c', '') or '')
                        if c.rsplit('::', 1)[-1] == 'modf':
                            x = _itv(g, rd, f, dp.n['args'][0], env, depth + 1)
                            y = Itv(0.0, math.floor(x.hi)) if x else None
                        else:
                            y = None
                    else:
                        y = _itv(g, rd, f, vx, env, depth + 1)
                    if y is None:
                        return None
                    out = y if out is None else Itv(min(out.lo, y.lo), max(out.hi, y.hi))
            return out
        return None
    if k == 'cond':
        c = _itv_truth(g, rd, f, n['cnd'], env, depth + 1)
        x = _itv(g, rd, f, n['a'], env, depth + 1)
        y = _itv(g, rd, f, n['b'], env, depth + 1)
        if c is True:
            return x
        if c is False:
            return y
        if x is None or y is None:
            return None
        return Itv(min(x.lo, y.lo), max(x.hi, y.hi))
    if k == 'binop':
        a = _itv(g, rd, f, n['lhs'], env, depth + 1)
        b = _itv(g, rd, f, n['rhs'], env, depth + 1)
        if a is None or b is None:
            return None
        op = n['op']
        if op == '+':
            return Itv(a.lo + b.lo, a.hi + b.hi)
        if op == '-':
            return Itv(a.lo - b.hi, a.hi - b.lo)
        if op == '*':
            c = [a.lo * b.lo, a.lo * b.hi, a.hi * b.lo, a.hi * b.hi]
            return Itv(min(c), max(c))
        if op == '<<' and b.lo == b.hi:
            return Itv(a.lo * 2 ** b.lo, a.hi * 2 ** b.lo)
        if op == '|':
            return Itv(max(a.lo, b.lo), a.hi + b.hi)
        return None
    if k == 'call':
        c = strip_targs(n.get('c', '') or '').rsplit('::', 1)[-1]
        if c == 'ldexp' and len(n.get('args', [])) == 2:
            x = _itv(g, rd, f, n['args'][0], env, depth + 1)
            e = _itv(g, rd, f, n['args'][1], env, depth + 1)
            if x and e and e.lo == e.hi:
                return Itv(x.lo * 2 ** e.lo, x.hi * 2 ** e.lo)
        if c == 'modf':
            return Itv(0.0, 1.0)   # fractional part, half-open [0,1); the bound is kept closed (sound)
        return None
    return None


def _itv_truth(g, rd, f, idx, env, depth=0):
    """True / False when the comparison is decided by the operand intervals, else None"""
    n = f.nodes[idx]
    while n['k'] == 'cast':
        n = f.nodes[n['e']]
    if n['k'] == 'unop' and n['op'] == '!':
        t = _itv_truth(g, rd, f, n['e'], env, depth + 1)
        return None if t is None else (not t)
    if n['k'] == 'binop' and n['op'] in ('&&', '||'):
        a, b = _itv_truth(g, rd, f, n['lhs'], env, depth + 1), _itv_truth(g, rd, f, n['rhs'], env, depth + 1)
        if n['op'] == '&&':
            return False if (a is False or b is False) else (True if (a and b) else None)
        return True if (a is True or b is True) else (False if (a is False and b is False) else None)
    if n['k'] == 'binop' and n['op'] in ('<', '<=', '>', '>=', '==', '!='):
        a, b = _itv(g, rd, f, n['lhs'], env, depth + 1), _itv(g, rd, f, n['rhs'], env, depth + 1)
        if a is None or b is None:
            return None
        op = n['op']
        if op in ('>', '>='):
            a, b, op = b, a, {'>': '<', '>=': '<='}[op]
        if op == '<':
            return True if a.hi < b.lo else (False if a.lo >= b.hi else None)
        if op == '<=':
            return True if a.hi <= b.lo else (False if a.lo > b.hi else None)
        if a.lo == a.hi == b.lo == b.hi:
            return (op == '==')
        if a.hi < b.lo or b.hi < a.lo:
            return (op == '!=')
    return None


INT_WIDTH = {'unsigned long': 64, 'uint64_t': 64, 'std::uint64_t': 64, 'unsigned long long': 64, 'unsigned int': 32, 'uint32_t': 32, 'std::uint32_t': 32,
             'unsigned short': 16, 'uint16_t': 16, 'unsigned char': 8, 'uint8_t': 8, 'int': 31, 'long': 63, 'long long': 63, 'short': 15}

SAMPLE_RATIOS = [-1.0, -1e-300, 0.0, 1e-300, 1e-9, 0.25, 0.5, 0.75, 1.0 - 2 ** -53, 1.0, 1.0 + 2 ** -52, 2.0]


def rule_r2c(ck, prog, ct, rule='C12.R2b'):
    """no value bits of the threshold are dropped: every integral conversion inside the threshold mapping is wide enough for the
    interval of its operand (a truncated low part loses exactly the carry the + was meant to keep)"""
    g = Graph(prog, ct, inline=None, sync_lambdas=False)
    rd = reaching_defs(g)
    env = {ct.params[0]['id']: Itv(0.0, 1.0)}
    bad = None
    cnt = 0
    for n in ct.nodes:
        if n['k'] != 'cast':
            continue
        t = (n.get('to') or n.get('t') or '').replace('const ', '')
        w = INT_WIDTH.get(t)
        src_t = (ct.nodes[n['e']].get('t') or '')
        if w is None or src_t.replace('const ', '') == t:
            continue
        if 'double' not in src_t and 'float' not in src_t and INT_WIDTH.get(src_t.replace('const ', ''), 0) <= w:
            continue
        x = _itv(g, rd, ct, n['e'], env)
        cnt += 1
        if x is None:
            continue
        if x.hi >= 2.0 ** w and bad is None:
            bad = (n, t, w, x)
    ck.verdict(bad is None, rule, ct, 'no-narrowing-of-threshold-parts', bad[0] if bad else None,
               '%d integral conversions, each wide enough for the interval of its operand' % cnt if bad is None else
               'the conversion to %s keeps %d bits but its operand ranges over %r: the bits above are dropped, so a larger ratio can map to a smaller threshold (monotonicity broken)' % (bad[1], bad[2], bad[3]))


def rule_r1b(ck, prog, rule='C12.R1', cls='sdk::trace::TraceIdRatioBasedSampler'):
    """the mapping function is applied to the configured ratio itself: the argument of CalculateThreshold in the constructor's
    initialiser, evaluated for a table of sample ratios (below 0, around 0, inside, around 1, above 1), is <= 0 for ratios <= 0,
    >= 1 for ratios >= 1 and the ratio itself in between - so that the extremes and the monotonicity of the mapping carry over"""
    rec = prog.record(cls)
    done = False
    for m in sorted([x for x in prog.funcs.values() if x.cls == rec['qn'] and x.kind == 'ctor' and x.blocks], key=lambda x: x.key):
        if not m.params or 'double' not in m.params[0]['t']:
            continue
        g = Graph(prog, m, inline=None, sync_lambdas=False)
        rd = reaching_defs(g)
        calls = [n for n in m.nodes if n['k'] == 'call' and strip_targs(n.get('c', '')).endswith('CalculateThreshold') and n.get('args')]
        if len(calls) != 1:
            continue
        done = True
        arg = calls[0]['args'][0]
        bad = None
        for r in SAMPLE_RATIOS:
            v = _itv(g, rd, m, arg, {m.params[0]['id']: Itv(r, r)})
            if v is None or v.lo != v.hi:
                ck.inconclusive(rule, m, 'mapping-applied-to-the-configured-ratio', calls[0], 'the argument of the threshold mapping does not fold for ratio %r' % r)
                bad = 'inconclusive'
                break
            x = v.lo
            okr = (x <= 0.0) if r <= 0.0 else ((x >= 1.0) if r >= 1.0 else (x == r))
            if not okr:
                bad = 'for a configured ratio of %r the threshold is computed from %r: %s' % (
                    r, x, 'a ratio >= 1 no longer samples everything' if r >= 1.0 else ('a ratio <= 0 samples something' if r <= 0.0 else
                    'the sampling probability is not the configured ratio, and a larger ratio can sample fewer traces'))
                break
        if bad == 'inconclusive':
            continue
        ck.verdict(bad is None, rule, m, 'mapping-applied-to-the-configured-ratio', calls[0],
                   'CalculateThreshold receives the configured ratio (%d sample ratios)' % len(SAMPLE_RATIOS) if bad is None else bad)
    if not done:
        raise AnalysisBroken('C12.R1: constructor initialising the threshold through the mapping function not found')


def rule_r2b(ck, prog, ct, rule='C12.R2b'):
    g = Graph(prog, ct, inline=None, sync_lambdas=False)
    rd = reaching_defs(g)
    env = {ct.params[0]['id']: Itv(0.0, 1.0)}
    found = 0
    for n in ct.nodes:
        if n['k'] != 'binop' or n['op'] not in ('|', '+', '^'):
            continue
        l, r = ct.nodes[n['lhs']], ct.nodes[n['rhs']]
        for hi_side, lo_side in ((n['lhs'], n['rhs']), (n['rhs'], n['lhs'])):
            hs = once_init(ct, hi_side)   # (the shifted high part may be held in a named local)
            if hs['k'] == 'binop' and hs['op'] == '<<' and 'v' in ct.nodes[hs['rhs']]:
                found += 1
                k = ct.nodes[hs['rhs']]['v']
                lo = _itv(g, rd, ct, lo_side, env)
                if lo is None:
                    ck.inconclusive(rule, ct, 'combine-high-low', n, 'interval of the low part not computable')
                    continue
                overlap = lo.hi >= 2 ** k
                if n['op'] == '+':
                    ck.holds(rule, ct, 'combine-high-low', n, 'high<<%d + low, low in %r: carry preserved' % (k, lo))
                elif overlap:
                    ck.violation(rule, ct, 'combine-high-low', n,
                                 'high<<%d %s low with low in %r: the low part can reach bit %d, a bitwise combination loses the carry, so a larger ratio can give a smaller threshold (monotonicity broken)' % (k, n['op'], lo, k))
                else:
                    ck.holds(rule, ct, 'combine-high-low', n, 'low part %r stays below bit %d' % (lo, k))
    if not found:
        ck.inconclusive(rule, ct, 'combine-high-low', None, 'no high/low combination found in the threshold mapping (shape not recognised)')
        return
    # the combination fits 64 bits. Intervals alone cannot show that (high and low part are correlated), the modf identity can:
    # with (h, fr) = modf(x), (h << k) + (ldexp(fr, k) + x) = x * (2^k + 1), so the largest threshold is x.hi * (2^k + 1)
    modfs = [n for n in ct.nodes if n['k'] == 'call' and strip_targs(n.get('c', '') or '').rsplit('::', 1)[-1] == 'modf' and n.get('args')]
    ldexps = [n for n in ct.nodes if n['k'] == 'call' and strip_targs(n.get('c', '') or '').rsplit('::', 1)[-1] == 'ldexp' and len(n.get('args', [])) == 2]
    shifts = [n for n in ct.nodes if n['k'] == 'binop' and n['op'] == '<<' and 'v' in ct.nodes[n['rhs']]]
    if len(modfs) == 1 and len(shifts) == 1 and ldexps:
        k = ct.nodes[shifts[0]['rhs']]['v']
        x = _itv(g, rd, ct, modfs[0]['args'][0], env)
        same_scale = any(modfs[0]['i'] in set(subtree_through_locals(ct, l['args'][0])) | {l['args'][0]} and
                         (_itv(g, rd, ct, l['args'][1], env) or Itv(-1, -1)).lo == k for l in ldexps)
        if x is None or not same_scale:
            ck.inconclusive(rule, ct, 'threshold-fits-64-bits', modfs[0], 'the scale of the fractional part / the interval of the scaled ratio is not recognised')
        else:
            from fractions import Fraction
            top = Fraction(x.hi) * (2 ** int(k) + 1)      # exact: 4294967295 * (2^32 + 1) = 2^64 - 1, which a double rounds to 2^64
            ok = top < 2 ** 64
            ck.verdict(ok, rule, ct, 'threshold-fits-64-bits', shifts[0],
                       'largest threshold = %d * (2^%d + 1) = %d < 2^64' % (x.hi, k, top) if ok else
                       'the scaled ratio reaches %g, so the threshold %g * (2^%d + 1) exceeds 2^64 - 1 and wraps around: ratios just below 1 map to small thresholds (a trace sampled at a lower ratio is dropped at a higher one)' % (x.hi, x.hi, k))


def _constant_samplers(ck, prog, rule):
    for cname, dec in (('sdk::trace::AlwaysOnSampler', 'RECORD_AND_SAMPLE'), ('sdk::trace::AlwaysOffSampler', 'DROP')):
        r2 = prog.record(cname)
        f2 = [x for x in prog.funcs.values() if x.cls == r2['qn'] and x.name == 'ShouldSample'][0]
        g2 = Graph(prog, f2, inline=None, sync_lambdas=False)
        rr = g2.returns()
        ok = bool(rr) and all(_decision_of(f2, r.n['e']) == dec for r in rr)
        ck.verdict(ok, rule, f2, 'constant-decision', rr[0].n if rr else None, 'every return is %s' % dec if ok else '%s can return a decision other than %s' % (cname.rsplit('::', 1)[-1], dec))



def rule_r3(ck, prog, rule='C12.R3', cls='sdk::trace::ParentBasedSampler'):
    rec = prog.record(cls)
    f = [x for x in prog.funcs.values() if x.cls == rec['qn'] and x.name == 'ShouldSample'][0]
    g = Graph(prog, f, inline=same_class_inline(prog, rec['qn']), sync_lambdas=False)
    pid = f.params[0]['id']

    def pred_edge(method, want):
        def pred(a, b, lab):
            if not lab or not isinstance(lab[0], int):
                return False
            core, pol = norm_cond(lab[1], lab[0])
            cn = lab[1].nodes[core]
            if cn['k'] != 'call' or cn.get('obj') is None:
                return False
            c = strip_targs(cn.get('c', ''))
            on = strip_casts(f, cn['obj'])
            direct = c.endswith('SpanContext::' + method) and on.get('id') == pid
            via_flags = method == 'IsSampled' and c.endswith('TraceFlags::IsSampled') and on['k'] == 'call' and \
                strip_targs(on.get('c', '')).endswith('SpanContext::trace_flags') and strip_casts(f, on['obj']).get('id') == pid
            if not (direct or via_flags):
                return False
            return (lab[2] if pol else not lab[2]) is want
        return pred
    dele = [p for p in g.calls('Sampler::ShouldSample')]
    if dele:
        args = [strip_casts(f, a) for a in dele[0].n.get('args', [])]
        names = []
        for a in args:
            sub = [f.nodes[i] for i in f.subtree(a['i']) if f.nodes[i]['k'] == 'ref' and f.nodes[i].get('sk') == 'param']
            names.append(sub[0].get('id') if sub else None)
        ok = names == [p['id'] for p in f.params]
        ck.verdict(ok, rule, f, 'delegate-gets-all-arguments', dele[0].n, 'all six arguments forwarded in order' if ok else 'the root sampler does not receive all six arguments in order')
    # ---- decision table over (parent valid, parent sampled): the two predicates are pinned and every path feasible under the pins is
    # walked (conditional constant propagation); the decision of each reachable return is read off its first initialiser
    from ..symb import explore_pinned, eval3 as _e3, T, F

    from ..symb import helper_result, local_pins, feasible_reach
    from .common import deparam

    def is_pred(ff, n, ctx, method):
        if n['k'] != 'call' or n.get('obj') is None:
            return False
        c = strip_targs(n.get('c', ''))

        def is_parent(idx):
            rf, ri, rc = deparam(ff, idx, ctx)
            return rf is f and strip_casts(rf, ri).get('id') == pid
        on = strip_casts(ff, n['obj'])
        direct = c.endswith('SpanContext::' + method) and is_parent(n['obj'])
        via_flags = method == 'IsSampled' and c.endswith('TraceFlags::IsSampled') and on['k'] == 'call' and \
            strip_targs(on.get('c', '')).endswith('SpanContext::trace_flags') and is_parent(on['obj'])
        return direct or via_flags
    valid_nodes = [(id(c.f), n['i']) for c in g.ctxs for n in c.f.nodes if is_pred(c.f, n, c, 'IsValid')]
    sampled_nodes = [(id(c.f), n['i']) for c in g.ctxs for n in c.f.nodes if is_pred(c.f, n, c, 'IsSampled')]

    def resolve(ff, e, ctx, env):
        """follow the returned expression into the private / file-local helper that produced it"""
        for _ in range(4):
            hr = helper_result(g, ff, e, ctx, env)
            if hr is None:
                break
            ff, e, ctx = hr
        return ff, e, ctx

    def decision_under(ff, ctx, e, env, pins, depth=3):
        """set of Decision enumerators the first initialiser of the returned result can be"""
        lp = local_pins(g, ctx, ff, env, pins)

        def val(idx, depth):
            n = strip_casts(ff, idx)
            if n['k'] == 'ref' and n.get('sk') == 'enum':
                return {n['qn'].rsplit('::', 1)[-1]}
            if n['k'] == 'cond':
                c = _e3(ff, n['cnd'], env, lp)
                if c is True:
                    return val(n['a'], depth)
                if c is False:
                    return val(n['b'], depth)
                return val(n['a'], depth) | val(n['b'], depth)
            if n['k'] == 'ref' and n.get('sk') == 'local' and depth > 0:
                out = set()
                for m in ff.nodes:
                    if m['k'] == 'declstmt':
                        for d in m['decls']:
                            if d['id'] == n['id'] and d.get('init') is not None and d['init'] >= 0:
                                out |= val(d['init'], depth - 1)
                others = [m for m in ff.nodes for (v, st, vx) in defs_in_node(ff, m) if v == n['id'] and m['k'] != 'declstmt']
                return out if out and not others else {'?'}
            return {'?'}
        en = strip_casts(ff, e)
        first = None
        if en['k'] in ('construct', 'initlist', 'InitListExpr') and (en.get('args') or en.get('ch')):
            first = (en.get('args') or en.get('ch'))[0]
        if first is None:
            for k in ff.subtree(e):
                if 'Decision' in (ff.nodes[k].get('t') or '') and ff.nodes[k]['k'] in ('ref', 'cond'):
                    first = k
                    break
        return val(first, depth) if first is not None else {'?'}

    def carries_parent_state(ff, ctx, e):
        for k in ff.subtree(e):
            m = ff.nodes[k]
            if m['k'] == 'call' and strip_targs(m.get('c', '')).endswith('SpanContext::trace_state') and m.get('obj') is not None:
                rf, ri, rc = deparam(ff, m['obj'], ctx)
                if rf is f and strip_casts(rf, ri).get('id') == pid:
                    return True
        return False
    table = {}
    delegate_run = {}
    for valid in (T, F):
        for sampled in (T, F):
            pins = {k: valid for k in valid_nodes}
            pins.update({k: sampled for k in sampled_nodes})
            rets_, seen = explore_pinned(g, pins)
            outs = set()
            for (ri, _v, env) in rets_:
                if ri is None:
                    outs.add(('?', False))
                    continue
                env = dict(env)
                ff, e, ctx = resolve(f, f.nodes[ri]['e'], g.root_ctx, env)
                if any(d.f is ff and ff.nodes[k] is d.n for d in dele for k in ff.subtree(e)):
                    outs.add(('DELEGATE', True))
                else:
                    for dec in decision_under(ff, ctx, e, env, pins):
                        outs.add((dec, carries_parent_state(ff, ctx, e)))
            table[(valid, sampled)] = outs
            delegate_run[(valid, sampled)] = bool(dele) and feasible_reach(g, [g.entry], dele, pins=pins) is not None
    have_preds = bool(valid_nodes) and bool(sampled_nodes)
    ok = len(dele) == 1 and have_preds and delegate_run[(F, T)] and delegate_run[(F, F)] and not delegate_run[(T, T)] and not delegate_run[(T, F)]
    ck.verdict(ok, rule, f, 'delegate-only-without-valid-parent', dele[0].n if dele else None,
               'the root sampler is invoked exactly on the paths feasible for an invalid parent' if ok else 'the root sampler is consulted for spans that have a valid parent (or never)')
    ok = have_preds and table[(F, T)] == {('DELEGATE', True)} and table[(F, F)] == {('DELEGATE', True)}
    ck.verdict(ok, rule, f, 'no-valid-parent=>root-sampler-decides', dele[0].n if dele else None,
               'without a valid parent the result is the root sampler\'s, whatever the flags byte says' if ok else
               'for an invalid parent context the result is not (only) the root sampler\'s: %s' % sorted(table[(F, T)] | table[(F, F)]))
    unreadable = [k_ for k_ in ((T, T), (T, F)) if any(d == '?' for (d, _s) in table[k_])]
    if unreadable and have_preds and not delegate_run[(T, T)] and not delegate_run[(T, F)]:
        # the decision is not written as an enumerator in the result (a table lookup, a computed value): not decided, not accused
        for site_ in ('valid-sampled=>record-and-sample', 'valid-unsampled=>drop'):
            ck.inconclusive(rule, f, site_, None, 'the decision of the valid-parent result is computed (table lookup / arithmetic) rather than named: this rule reads enumerators only')
        ok = have_preds and all(st for (_d, st) in table[(T, T)] | table[(T, F)])
        ck.verdict(ok, rule, f, 'parent-trace-state-both-ways', None,
                   'both results carry the parent\'s trace state' if ok else 'a result for a valid parent does not carry the parent\'s trace state')
        _constant_samplers(ck, prog, rule)
        return
    ok = have_preds and {d for (d, _s) in table[(T, T)]} == {'RECORD_AND_SAMPLE'} and not delegate_run[(T, T)]
    ck.verdict(ok, rule, f, 'valid-sampled=>record-and-sample', None,
               'RECORD_AND_SAMPLE exactly for a valid parent whose sampled predicate is true' if ok else
               'for a valid, sampled parent the decision is %s%s (the sampled predicate IsSampled() has to decide; a comparison of the whole flags byte treats 0x03 as unsampled)' %
               (sorted({d for (d, _s) in table[(T, T)]}), ', and the root sampler is invoked' if delegate_run[(T, T)] else ''))
    ok = have_preds and {d for (d, _s) in table[(T, F)]} == {'DROP'} and not delegate_run[(T, F)]
    ck.verdict(ok, rule, f, 'valid-unsampled=>drop', None,
               'DROP exactly for a valid parent whose sampled predicate is false' if ok else
               'for a valid, unsampled parent the decision is %s%s' % (sorted({d for (d, _s) in table[(T, F)]}), ', and the root sampler is invoked' if delegate_run[(T, F)] else ''))
    ok = have_preds and all(st for (_d, st) in table[(T, T)] | table[(T, F)])
    ck.verdict(ok, rule, f, 'parent-trace-state-both-ways', None,
               'both results carry the parent\'s trace state' if ok else 'a result for a valid parent does not carry the parent\'s trace state')
    _constant_samplers(ck, prog, rule)


def run(ck, prog):
    ck.doc('C12.R1', 'ratio decision is a pure function of (trace id, threshold); threshold fixed from the ratio at construction; the mapping is applied to the configured ratio itself (sample table)', 6)
    ck.doc('C12.R2', 'guards: extreme ratios, zero threshold, id <= threshold, same mapping on both sides', 6)
    ck.doc('C12.R2b', 'interval analysis: high/low combination of the threshold must carry and fit 64 bits; no integral conversion narrower than its operand', 3)
    ck.doc('C12.R3', 'parent-based decision table; constant samplers', 7)
    cg = CallGraph(prog)
    with ck.canary('C12.R1'):
        rule_r1(ck, prog, cg, cls='canary::c12::BadRatioSampler')
    with ck.canary('C12.R2b'):
        rule_r2b(ck, prog, prog.function('canary::c12::BadThreshold'))
    with ck.canary('C12.R3'):
        rule_r3(ck, prog, cls='canary::c12::BadParentSampler')
    f = rule_r1(ck, prog, cg)
    rule_r1b(ck, prog)
    ct = rule_r2(ck, prog, cg, f)
    # the arithmetic of the mapping may sit in a file-local helper that the guarded mapping function calls with the ratio itself
    arith = ct
    if not any(n['k'] == 'binop' and n['op'] == '<<' for n in ct.nodes):
        cands = [prog.funcs[n['ck']] for n in ct.nodes if n['k'] == 'call' and n.get('ck') in prog.funcs and prog.funcs[n['ck']].blocks and
                 len(prog.funcs[n['ck']].params) == 1 and strip_casts(ct, n['args'][0]).get('id') == ct.params[0]['id'] and
                 any(m['k'] == 'binop' and m['op'] == '<<' for m in prog.funcs[n['ck']].nodes)]
        if len(cands) == 1:
            arith = cands[0]
    rule_r2b(ck, prog, arith)
    rule_r2c(ck, prog, arith)
    rule_r3(ck, prog)
    # the parent-based sampler reads the decision back from the flags byte the tracer wrote: the encoding rule of C05
    # is a prerequisite of "a child gets exactly the parent's sampled decision"
    from . import c05
    ck.doc('C05.R1', '(prerequisite, see C05) the tracer encodes exactly the sampler\'s IsSampled() decision into the sampled flag', 2)
    sf = prog.function('sdk::trace::Tracer::StartSpan')
    c05.rule_r1(ck, prog, sf)
    # "the parent's sampled decision and the parent's trace state" reach the new span only if the tracer hands the sampler the
    # resolved parent and builds the context (recorded or not) from the sampler's / parent's trace state: C05.R2-R4
    ck.doc('C05.R2', '(prerequisite, see C05) parent precedence decision table; the sampler (asked on every path) and the recording Span receive the resolved parent', 10)
    ck.doc('C05.R3', '(prerequisite, see C05) sources of trace id, span id, remote flag and trace state of the new context', 4)
    ck.doc('C05.R4', '(prerequisite, see C05) not-recording edge => NoopSpan with the same context; recording edge => SDK Span', 2)
    g5, rd5, sink5, vid5 = c05.rule_r2(ck, prog, sf)
    c05.rule_r2_predicates(ck, prog)
    if vid5 is not None:
        sc5 = c05.rule_r3(ck, prog, sf, g5, rd5, vid5)
        c05.rule_r4(ck, prog, sf, g5, rd5, sc5)
    return {}
