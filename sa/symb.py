"""Three-valued evaluation of boolean expressions and a small path explorer used by the
aggregation / propagation rules ("if this call returned false, the function cannot return true")."""
from .expr import defs_in_node
from .ir import strip_targs

T, F, U = True, False, None


def and3(a, b):
    if a is F or b is F:
        return F
    if a is T and b is T:
        return T
    return U


def or3(a, b):
    if a is T or b is T:
        return T
    if a is F and b is F:
        return F
    return U


def not3(a):
    if a is U:
        return U
    return not a


def eval3(f, idx, env, node_vals):
    """env: var id -> T/F/U ; node_vals: node idx -> T/F/U (pinned results of particular calls)"""
    if idx is None or idx < 0:
        return U
    if idx in node_vals:
        return node_vals[idx]
    n = f.nodes[idx]
    k = n['k']
    if k == 'lit':
        if n.get('t') == 'bool' and 'v' in n:
            return bool(n['v'])
        if 'v' in n and n['v'] in (0, 1):
            return bool(n['v'])
        if n.get('null'):
            return F
        return U
    if k == 'ref':
        return env.get(n.get('id'), U)
    if k == 'unop' and n['op'] == '!':
        return not3(eval3(f, n['e'], env, node_vals))
    if k == 'cast':
        return eval3(f, n['e'], env, node_vals)
    if k == 'binop':
        op = n['op']
        if op in ('&&', '&'):
            return and3(eval3(f, n['lhs'], env, node_vals), eval3(f, n['rhs'], env, node_vals))
        if op in ('||', '|'):
            return or3(eval3(f, n['lhs'], env, node_vals), eval3(f, n['rhs'], env, node_vals))
        if op in ('==', '!='):
            a, b = eval3(f, n['lhs'], env, node_vals), eval3(f, n['rhs'], env, node_vals)
            if a is U or b is U:
                return U
            return (a == b) if op == '==' else (a != b)
        if op == '=':
            return eval3(f, n['rhs'], env, node_vals)
        if op == '&=':
            return and3(eval3(f, n['lhs'], env, node_vals), eval3(f, n['rhs'], env, node_vals))
        if op == '|=':
            return or3(eval3(f, n['lhs'], env, node_vals), eval3(f, n['rhs'], env, node_vals))
        if op == ',':
            return eval3(f, n['rhs'], env, node_vals)
        return U
    if k == 'cond':
        c = eval3(f, n['cnd'], env, node_vals)
        if c is T:
            return eval3(f, n['a'], env, node_vals)
        if c is F:
            return eval3(f, n['b'], env, node_vals)
        a, b = eval3(f, n['a'], env, node_vals), eval3(f, n['b'], env, node_vals)
        return a if a == b else U
    if k == 'call' and n.get('op') == '!' and n.get('obj') is not None:
        return not3(eval3(f, n['obj'], env, node_vals))
    if k == 'call' and n.get('obj') is not None and not n.get('args') and strip_targs(n.get('c', '')).endswith('::operator bool'):
        return eval3(f, n['obj'], env, node_vals)
    if k == 'call' and n.get('op') in ('==', '!='):
        # smart pointer compared with nullptr: the pointer's pinned "is non-null" value decides
        ops = ([n['obj']] if n.get('obj') is not None else []) + [a for a in n.get('args', []) if a is not None and a >= 0]
        if len(ops) == 2:
            for a, b in ((ops[0], ops[1]), (ops[1], ops[0])):
                bn = f.nodes[b]
                while bn['k'] == 'cast':
                    bn = f.nodes[bn['e']]
                if bn['k'] == 'lit' and bn.get('null'):
                    v = eval3(f, a, env, node_vals)
                    if v is U:
                        return U
                    return (not v) if n['op'] == '==' else v
    return U


def is_bool_var_type(t):
    return t in ('bool', 'const bool')


class _Info:
    """per-graph tables for walking through inlined helper contexts: children of a context (call idx -> child ctx), the
    context that starts at a point, and the local variable ids of a function (cleared on every entry)."""
    def __init__(self, g):
        self.children = {}
        self.entry_of = {}
        self._locals = {}
        for c in g.ctxs:
            if c.parent is None or c.call is None:
                continue
            if not c.lambda_of:
                self.children.setdefault(id(c.parent), []).append((c.call['i'], c))
            b = g.ctx_bounds.get(id(c))
            if b:
                self.entry_of[b[0].id] = c

    def locals_of(self, f):
        r = self._locals.get(id(f))
        if r is None:
            r = {p['id'] for p in f.params}
            for n in f.nodes:
                if n['k'] == 'declstmt':
                    r.update(d['id'] for d in n['decls'])
            self._locals[id(f)] = r
        return r


def _info(g):
    i = getattr(g, '_symb_info', None)
    if i is None:
        i = g._symb_info = _Info(g)
    return i


def _local_pins(g, info, ctx, f, env, pins):
    """the pins that apply to expressions of function f evaluated in context ctx: plain node indices pin nodes of the root
    function, (id(func), idx) pins nodes of an inlined helper; the value an inlined helper returned (tracked in env) pins
    the call node in its caller."""
    kids = info.children.get(id(ctx))
    if ctx is g.root_ctx and not kids:
        if not any(isinstance(k, tuple) for k in pins):
            return pins
    out = {}
    root = ctx is g.root_ctx
    fid = id(f)
    for k, v in pins.items():
        if isinstance(k, tuple):
            if k[0] == fid:
                out[k[1]] = v
        elif root:
            out[k] = v
    for (ci, ch) in kids or ():
        rv = env.get(('ret', id(ch)))
        if rv is not None and ci not in out:
            out[ci] = rv
    return out


def _transfer(g, info, p, env, pins, bool_only=True):
    """effect of passing point p on the tracked boolean variables (root function and inlined helpers alike)"""
    c = info.entry_of.get(p.id)
    if c is not None:
        # entering an inlined helper: forget its locals, bind its boolean parameters to the argument values
        env = dict(env)
        for v in info.locals_of(c.f):
            env.pop(v, None)
        env.pop(('ret', id(c)), None)
        env.pop(('retpt', id(c)), None)
        lp = _local_pins(g, info, c.parent, c.caller, env, pins)
        args = c.call.get('args', []) if not c.lambda_of else []
        for pi, prm in enumerate(c.f.params):
            if pi < len(args) and args[pi] is not None and args[pi] >= 0 and is_bool_var_type(prm.get('t', '')):
                v = eval3(c.caller, args[pi], env, lp)
                if v is not U:
                    env[prm['id']] = v
    n = p.n
    if n is None:
        return env
    f = p.f
    lp = None
    for (vid, strong, vx) in defs_in_node(f, n):
        if lp is None:
            lp = _local_pins(g, info, p.ctx, f, env, pins)
        if n['k'] == 'declstmt':
            d = [d for d in n['decls'] if d['id'] == vid][0]
            if 'init' in d and (not bool_only or is_bool_var_type(d['t'])):
                env = dict(env)
                env[vid] = eval3(f, d['init'], env, lp)
        elif n['k'] == 'binop' and n['op'] == '=':
            if not bool_only or is_bool_var_type(f.nodes[n['lhs']].get('t') or ''):
                env = dict(env)
                env[vid] = eval3(f, n['rhs'], env, lp)
        elif vid in env:
            env = dict(env)
            env[vid] = U
    if n['k'] == 'return' and p.ctx is not g.root_ctx:
        if lp is None:
            lp = _local_pins(g, info, p.ctx, f, env, pins)
        env = dict(env)
        e = n.get('e')
        env[('ret', id(p.ctx))] = eval3(f, e, env, lp) if e is not None and e >= 0 else U
        env[('retpt', id(p.ctx))] = n['i']     # which return of the helper produced the value (for result resolution)
    return env


def helper_result(g, f, idx, ctx, env):
    """when expression idx (function f, context ctx) is - conversions and copies stripped - a call of a helper that is inlined
    into the graph and the walk recorded which of its returns was taken: (helper func, returned expr idx, helper ctx), else None"""
    info = _info(g)
    for _ in range(8):
        n = f.nodes[idx]
        if n['k'] == 'cast':
            idx = n['e']
            continue
        if n['k'] == 'construct' and n.get('copymove') and len(n.get('args', [])) == 1:
            idx = n['args'][0]
            continue
        if n['k'] in ('ExprWithCleanups', 'MaterializeTemporaryExpr', 'CXXBindTemporaryExpr') and n.get('ch'):
            idx = n['ch'][0]
            continue
        break
    n = f.nodes[idx]
    if n['k'] != 'call':
        return None
    for (ci, ch) in info.children.get(id(ctx), ()):
        if ci == n['i']:
            ri = env.get(('retpt', id(ch)))
            if ri is None:
                return None
            e = ch.f.nodes[ri].get('e')
            if e is None or e < 0:
                return None
            return ch.f, e, ch
    return None


def local_pins(g, ctx, f, env, pins):
    return _local_pins(g, _info(g), ctx, f, env, pins)


def _edge_feasible(g, info, p, lab, env, pins):
    if lab and isinstance(lab[0], int) and lab[1] is p.f:
        cv = eval3(p.f, lab[0], env, _local_pins(g, info, p.ctx, p.f, env, pins))
        if cv is not U and cv != lab[2]:
            return False
    return True


def _envkey(env):
    return frozenset(env.items())


def explore_false_child(g, child_pt, same_child, max_visits=2, limit=20000):
    """From the point right after `child_pt` (a call whose result is pinned to False), walk every
    feasible path to a return of the root function.  Later executions of calls for which
    same_child(point) is true get an unknown result.  Returns a list of (return point, value, path)
    for returns whose value is not definitely False."""
    f = child_pt.f
    bad = []
    seen = {}
    steps = [0]

    def step(p, env, pins, visits, path):
        steps[0] += 1
        if steps[0] > limit:
            return
        key = (p.id, tuple(sorted(env.items())), tuple(sorted(pins.items())))
        c = seen.get(key, 0)
        if c >= 1:
            return
        seen[key] = c + 1
        vcount = visits.get(p.id, 0)
        if vcount >= max_visits:
            return
        visits = dict(visits)
        visits[p.id] = vcount + 1
        n = p.n
        if n is not None and p.f is f and p.ctx is g.root_ctx:
            if same_child(p):
                # a later execution of a child call: its result is unknown
                pins = dict(pins)
                pins[n['i']] = U
            for (vid, strong, vx) in defs_in_node(f, n):
                if n['k'] == 'declstmt':
                    d = [d for d in n['decls'] if d['id'] == vid][0]
                    if 'init' in d:
                        env = dict(env)
                        env[vid] = eval3(f, d['init'], env, pins)
                elif n['k'] == 'binop':
                    env = dict(env)
                    env[vid] = eval3(f, n['i'], env, pins)
                else:
                    env = dict(env)
                    env[vid] = U
            if n['k'] == 'return':
                v = eval3(f, n.get('e'), env, pins) if n.get('e') is not None else U
                if v is not F:
                    bad.append((p, v, path + [p]))
                return
        for (q, lab) in p.succ:
            if lab and isinstance(lab[0], int) and lab[1] is f and p.ctx is g.root_ctx:
                cv = eval3(f, lab[0], env, pins)
                if cv is not U and cv != lab[2]:
                    continue
            step(q, env, pins, visits, path + [p] if len(path) < 60 else path)

    import sys
    old = sys.getrecursionlimit()
    sys.setrecursionlimit(max(old, 20000))
    try:
        env0 = {}
        pins0 = {child_pt.n['i']: F}
        for (q, lab) in child_pt.succ:
            step(q, env0, pins0, {}, [child_pt])
    finally:
        sys.setrecursionlimit(old)
    return bad


def feasible_reach(g, starts, targets, avoid=(), env0=None, limit=20000, pins=None):
    """Is one of `targets` reachable from `starts` along a path that is feasible with respect to the boolean
    locals of the root function (assignments of constants / boolean expressions are tracked, branch conditions
    are evaluated three-valued, definitely-false edges are pruned)?  Returns the path or None."""
    f = g.func
    pins = pins or {}
    info = _info(g)
    tids = {t.id for t in targets}
    aids = {a.id for a in avoid}
    seen = set()
    steps = [0]
    stack = [(s, dict(env0 or {}), [s]) for s in starts]
    while stack:
        p, env, path = stack.pop()
        steps[0] += 1
        if steps[0] > limit:
            return path
        key = (p.id, _envkey(env))
        if key in seen or p.id in aids:
            continue
        seen.add(key)
        if p.id in tids:
            return path
        env = _transfer(g, info, p, env, pins)
        for (q, lab) in p.succ:
            if not _edge_feasible(g, info, p, lab, env, pins):
                continue
            stack.append((q, env, path + [q] if len(path) < 80 else path))
    return None


def feasible_armed_reach(g, arm, disarm, targets, limit=40000, pins=None):
    """Explore feasible paths from the function entry (boolean locals tracked as in feasible_reach).  Passing a
    point of `arm` arms the walk, passing one of `disarm` disarms it; returns a path that reaches a point of
    `targets` while armed, or None."""
    f = g.func
    pins = pins or {}
    info = _info(g)
    arm_ids = {p.id for p in arm}
    dis_ids = {p.id for p in disarm}
    tids = {t.id for t in targets}
    seen = set()
    stack = [(g.entry, {}, False, [g.entry])]
    steps = 0
    while stack:
        p, env, armed, path = stack.pop()
        steps += 1
        if steps > limit:
            return None
        key = (p.id, _envkey(env), armed)
        if key in seen:
            continue
        seen.add(key)
        if armed and p.id in tids:
            return path
        if p.id in dis_ids:
            armed = False
        env = _transfer(g, info, p, env, pins)
        if p.id in arm_ids:
            armed = True
        for (q, lab) in p.succ:
            if not _edge_feasible(g, info, p, lab, env, pins):
                continue
            stack.append((q, env, armed, path + [q] if len(path) < 80 else path))
    return None


def returns_under_pins(g, pins, limit=20000, assign_at=None):
    """Three-valued values the root function can return when the results of the calls in `pins` (node idx -> T/F) are
    fixed: every feasible path from the entry is walked (boolean locals tracked, definitely-false edges pruned).
    assign_at: node idx -> {var id: T/F}: what a call stores into its boolean out-parameters."""
    assign_at = assign_at or {}
    f = g.func
    info = _info(g)
    out = set()
    seen = set()
    stack = [(g.entry, {})]
    steps = 0
    while stack:
        p, env = stack.pop()
        steps += 1
        if steps > limit:
            out.add(U)
            break
        key = (p.id, _envkey(env))
        if key in seen:
            continue
        seen.add(key)
        n = p.n
        env = _transfer(g, info, p, env, pins)
        if n is not None and p.f is f and p.ctx is g.root_ctx:
            if n['i'] in assign_at:
                env = dict(env)
                env.update(assign_at[n['i']])
            if n['k'] == 'return':
                lp = _local_pins(g, info, p.ctx, f, env, pins)
                out.add(eval3(f, n.get('e'), env, lp) if n.get('e') is not None else U)
                continue
        for (q, lab) in p.succ:
            if not _edge_feasible(g, info, p, lab, env, pins):
                continue
            stack.append((q, env))
    return out


def explore_pinned(g, pins, switch_vals=None, probes=(), limit=40000):
    """Walk every path of the root function that is feasible when the expression nodes in `pins` (node idx -> T/F) and the
    switch conditions in `switch_vals` (cond node idx -> integer value) are fixed; boolean locals/params are tracked.
    Returns (returns, seen_probes): returns = set of (return node idx, value3 of a boolean return or None, frozenset of the
    tracked boolean variables (var id, value3) at that return),
    seen_probes = {probe node idx: set of three-valued values the expression has when the walk passes that point}."""
    f = g.func
    switch_vals = switch_vals or {}
    info = _info(g)
    probe_idx = set(probes)
    rets = set()
    seenp = {}
    seen = set()
    stack = [(g.entry, {})]
    steps = 0
    while stack:
        p, env = stack.pop()
        steps += 1
        if steps > limit:
            rets.add((None, U))
            break
        key = (p.id, _envkey(env))
        if key in seen:
            continue
        seen.add(key)
        n = p.n
        if n is not None and p.f is f and p.ctx is g.root_ctx and n['i'] in probe_idx:
            seenp.setdefault(n['i'], set()).add(eval3(f, n['i'], env, _local_pins(g, info, p.ctx, f, env, pins)))
        env = _transfer(g, info, p, env, pins)
        if n is not None and p.f is f and p.ctx is g.root_ctx:
            if n['k'] == 'return':
                e = n.get('e')
                lp = _local_pins(g, info, p.ctx, f, env, pins)
                rets.add((n['i'], eval3(f, e, env, lp) if e is not None and e >= 0 else U,
                          frozenset((k, v) for (k, v) in env.items() if not (isinstance(k, tuple) and k[0] == 'ret'))))
                continue
        succ = p.succ
        cases = [(q, lab) for (q, lab) in succ if lab and lab[0] == 'case']
        if cases:
            # which switch is this? the terminator condition of the block the point closes
            cond = cases[0][1][4] if len(cases[0][1]) > 4 else None
            val = switch_vals.get(cond) if cond is not None else None
            if val is not None:
                exact = [(q, lab) for (q, lab) in cases if lab[3] == 'case' and lab[1] == val]
                succ = exact or [(q, lab) for (q, lab) in cases if lab[3] != 'case']
        for (q, lab) in succ:
            if not _edge_feasible(g, info, p, lab, env, pins):
                continue
            stack.append((q, env))
    return rets, seenp
