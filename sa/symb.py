"""Three-valued evaluation of boolean expressions and a small path explorer used by the
aggregation / propagation rules ("if this call returned false, the function cannot return true")."""
from .expr import defs_in_node
from .ir import strip_targs

T, F, U = True, False, None


def and3(a, b):
    if a is F or b is F:
        return F
    if a is T and b is T:
        return T
    return U


def or3(a, b):
    if a is T or b is T:
        return T
    if a is F and b is F:
        return F
    return U


def not3(a):
    if a is U:
        return U
    return not a


def eval3(f, idx, env, node_vals):
    """env: var id -> T/F/U ; node_vals: node idx -> T/F/U (pinned results of particular calls)"""
    if idx is None or idx < 0:
        return U
    if idx in node_vals:
        return node_vals[idx]
    n = f.nodes[idx]
    k = n['k']
    if k == 'lit':
        if n.get('t') == 'bool' and 'v' in n:
            return bool(n['v'])
        if 'v' in n and n['v'] in (0, 1):
            return bool(n['v'])
        if n.get('null'):
            return F
        return U
    if k == 'ref':
        return env.get(n.get('id'), U)
    if k == 'unop' and n['op'] == '!':
        return not3(eval3(f, n['e'], env, node_vals))
    if k == 'cast':
        return eval3(f, n['e'], env, node_vals)
    if k == 'binop':
        op = n['op']
        if op in ('&&', '&'):
            return and3(eval3(f, n['lhs'], env, node_vals), eval3(f, n['rhs'], env, node_vals))
        if op in ('||', '|'):
            return or3(eval3(f, n['lhs'], env, node_vals), eval3(f, n['rhs'], env, node_vals))
        if op in ('==', '!='):
            a, b = eval3(f, n['lhs'], env, node_vals), eval3(f, n['rhs'], env, node_vals)
            if a is U or b is U:
                return U
            return (a == b) if op == '==' else (a != b)
        if op == '=':
            return eval3(f, n['rhs'], env, node_vals)
        if op == '&=':
            return and3(eval3(f, n['lhs'], env, node_vals), eval3(f, n['rhs'], env, node_vals))
        if op == '|=':
            return or3(eval3(f, n['lhs'], env, node_vals), eval3(f, n['rhs'], env, node_vals))
        if op == ',':
            return eval3(f, n['rhs'], env, node_vals)
        return U
    if k == 'cond':
        c = eval3(f, n['cnd'], env, node_vals)
        if c is T:
            return eval3(f, n['a'], env, node_vals)
        if c is F:
            return eval3(f, n['b'], env, node_vals)
        a, b = eval3(f, n['a'], env, node_vals), eval3(f, n['b'], env, node_vals)
        return a if a == b else U
    if k == 'call' and n.get('op') == '!' and n.get('obj') is not None:
        return not3(eval3(f, n['obj'], env, node_vals))
    return U


def is_bool_var_type(t):
    return t in ('bool', 'const bool')


def explore_false_child(g, child_pt, same_child, max_visits=2, limit=20000):
    """From the point right after `child_pt` (a call whose result is pinned to False), walk every
    feasible path to a return of the root function.  Later executions of calls for which
    same_child(point) is true get an unknown result.  Returns a list of (return point, value, path)
    for returns whose value is not definitely False."""
    f = child_pt.f
    bad = []
    seen = {}
    steps = [0]

    def step(p, env, pins, visits, path):
        steps[0] += 1
        if steps[0] > limit:
            return
        key = (p.id, tuple(sorted(env.items())), tuple(sorted(pins.items())))
        c = seen.get(key, 0)
        if c >= 1:
            return
        seen[key] = c + 1
        vcount = visits.get(p.id, 0)
        if vcount >= max_visits:
            return
        visits = dict(visits)
        visits[p.id] = vcount + 1
        n = p.n
        if n is not None and p.f is f and p.ctx is g.root_ctx:
            if same_child(p):
                # a later execution of a child call: its result is unknown
                pins = dict(pins)
                pins[n['i']] = U
            for (vid, strong, vx) in defs_in_node(f, n):
                if n['k'] == 'declstmt':
                    d = [d for d in n['decls'] if d['id'] == vid][0]
                    if 'init' in d:
                        env = dict(env)
                        env[vid] = eval3(f, d['init'], env, pins)
                elif n['k'] == 'binop':
                    env = dict(env)
                    env[vid] = eval3(f, n['i'], env, pins)
                else:
                    env = dict(env)
                    env[vid] = U
            if n['k'] == 'return':
                v = eval3(f, n.get('e'), env, pins) if n.get('e') is not None else U
                if v is not F:
                    bad.append((p, v, path + [p]))
                return
        for (q, lab) in p.succ:
            if lab and isinstance(lab[0], int) and lab[1] is f and p.ctx is g.root_ctx:
                cv = eval3(f, lab[0], env, pins)
                if cv is not U and cv != lab[2]:
                    continue
            step(q, env, pins, visits, path + [p] if len(path) < 60 else path)

    import sys
    old = sys.getrecursionlimit()
    sys.setrecursionlimit(max(old, 20000))
    try:
        env0 = {}
        pins0 = {child_pt.n['i']: F}
        for (q, lab) in child_pt.succ:
            step(q, env0, pins0, {}, [child_pt])
    finally:
        sys.setrecursionlimit(old)
    return bad


def feasible_reach(g, starts, targets, avoid=(), env0=None, limit=20000, pins=None):
    """Is one of `targets` reachable from `starts` along a path that is feasible with respect to the boolean
    locals of the root function (assignments of constants / boolean expressions are tracked, branch conditions
    are evaluated three-valued, definitely-false edges are pruned)?  Returns the path or None."""
    f = g.func
    pins = pins or {}
    tids = {t.id for t in targets}
    aids = {a.id for a in avoid}
    seen = set()
    steps = [0]
    stack = [(s, dict(env0 or {}), [s]) for s in starts]
    while stack:
        p, env, path = stack.pop()
        steps[0] += 1
        if steps[0] > limit:
            return path
        key = (p.id, tuple(sorted(env.items())))
        if key in seen or p.id in aids:
            continue
        seen.add(key)
        if p.id in tids:
            return path
        n = p.n
        if n is not None and p.f is f and p.ctx is g.root_ctx:
            for (vid, strong, vx) in defs_in_node(f, n):
                if n['k'] == 'declstmt':
                    d = [d for d in n['decls'] if d['id'] == vid][0]
                    if 'init' in d and is_bool_var_type(d['t']):
                        env = dict(env)
                        env[vid] = eval3(f, d['init'], env, pins)
                elif n['k'] == 'binop' and n['op'] == '=':
                    if is_bool_var_type(f.nodes[n['lhs']].get('t') or ''):
                        env = dict(env)
                        env[vid] = eval3(f, n['rhs'], env, pins)
                elif vid in env:
                    env = dict(env)
                    env[vid] = U
        for (q, lab) in p.succ:
            if lab and isinstance(lab[0], int) and lab[1] is f and p.ctx is g.root_ctx:
                cv = eval3(f, lab[0], env, pins)
                if cv is not U and cv != lab[2]:
                    continue
            stack.append((q, env, path + [q] if len(path) < 80 else path))
    return None


def feasible_armed_reach(g, arm, disarm, targets, limit=40000):
    """Explore feasible paths from the function entry (boolean locals tracked as in feasible_reach).  Passing a
    point of `arm` arms the walk, passing one of `disarm` disarms it; returns a path that reaches a point of
    `targets` while armed, or None."""
    f = g.func
    arm_ids = {p.id for p in arm}
    dis_ids = {p.id for p in disarm}
    tids = {t.id for t in targets}
    seen = set()
    stack = [(g.entry, {}, False, [g.entry])]
    steps = 0
    while stack:
        p, env, armed, path = stack.pop()
        steps += 1
        if steps > limit:
            return None
        key = (p.id, tuple(sorted(env.items())), armed)
        if key in seen:
            continue
        seen.add(key)
        if armed and p.id in tids:
            return path
        if p.id in dis_ids:
            armed = False
        n = p.n
        if n is not None and p.f is f and p.ctx is g.root_ctx:
            for (vid, strong, vx) in defs_in_node(f, n):
                if n['k'] == 'declstmt':
                    d = [d for d in n['decls'] if d['id'] == vid][0]
                    if 'init' in d and is_bool_var_type(d['t']):
                        env = dict(env)
                        env[vid] = eval3(f, d['init'], env, {})
                elif n['k'] == 'binop' and n['op'] == '=':
                    if is_bool_var_type(f.nodes[n['lhs']].get('t') or ''):
                        env = dict(env)
                        env[vid] = eval3(f, n['rhs'], env, {})
                elif vid in env:
                    env = dict(env)
                    env[vid] = U
        if p.id in arm_ids:
            armed = True
        for (q, lab) in p.succ:
            if lab and isinstance(lab[0], int) and lab[1] is f and p.ctx is g.root_ctx:
                cv = eval3(f, lab[0], env, {})
                if cv is not U and cv != lab[2]:
                    continue
            stack.append((q, env, armed, path + [q] if len(path) < 80 else path))
    return None


def returns_under_pins(g, pins, limit=20000, assign_at=None):
    """Three-valued values the root function can return when the results of the calls in `pins` (node idx -> T/F) are
    fixed: every feasible path from the entry is walked (boolean locals tracked, definitely-false edges pruned).
    assign_at: node idx -> {var id: T/F}: what a call stores into its boolean out-parameters."""
    assign_at = assign_at or {}
    f = g.func
    out = set()
    seen = set()
    stack = [(g.entry, {})]
    steps = 0
    while stack:
        p, env = stack.pop()
        steps += 1
        if steps > limit:
            out.add(U)
            break
        key = (p.id, tuple(sorted(env.items())))
        if key in seen:
            continue
        seen.add(key)
        n = p.n
        if n is not None and p.f is f and p.ctx is g.root_ctx:
            for (vid, strong, vx) in defs_in_node(f, n):
                if n['k'] == 'declstmt':
                    d = [d for d in n['decls'] if d['id'] == vid][0]
                    if 'init' in d and is_bool_var_type(d['t']):
                        env = dict(env)
                        env[vid] = eval3(f, d['init'], env, pins)
                elif n['k'] == 'binop' and n['op'] == '=':
                    if is_bool_var_type(f.nodes[n['lhs']].get('t') or ''):
                        env = dict(env)
                        env[vid] = eval3(f, n['rhs'], env, pins)
                elif vid in env:
                    env = dict(env)
                    env[vid] = U
            if n['i'] in assign_at:
                env = dict(env)
                env.update(assign_at[n['i']])
            if n['k'] == 'return':
                out.add(eval3(f, n.get('e'), env, pins) if n.get('e') is not None else U)
                continue
        for (q, lab) in p.succ:
            if lab and isinstance(lab[0], int) and lab[1] is f and p.ctx is g.root_ctx:
                cv = eval3(f, lab[0], env, pins)
                if cv is not U and cv != lab[2]:
                    continue
            stack.append((q, env))
    return out


def explore_pinned(g, pins, switch_vals=None, probes=(), limit=40000):
    """Walk every path of the root function that is feasible when the expression nodes in `pins` (node idx -> T/F) and the
    switch conditions in `switch_vals` (cond node idx -> integer value) are fixed; boolean locals/params are tracked.
    Returns (returns, seen_probes): returns = set of (return node idx, value3 of a boolean return or None, frozenset of the
    tracked boolean variables (var id, value3) at that return),
    seen_probes = {probe node idx: set of three-valued values the expression has when the walk passes that point}."""
    f = g.func
    switch_vals = switch_vals or {}
    probe_idx = set(probes)
    rets = set()
    seenp = {}
    seen = set()
    stack = [(g.entry, {})]
    steps = 0
    while stack:
        p, env = stack.pop()
        steps += 1
        if steps > limit:
            rets.add((None, U))
            break
        key = (p.id, tuple(sorted(env.items())))
        if key in seen:
            continue
        seen.add(key)
        n = p.n
        if n is not None and p.f is f and p.ctx is g.root_ctx:
            if n['i'] in probe_idx:
                seenp.setdefault(n['i'], set()).add(eval3(f, n['i'], env, pins))
            for (vid, strong, vx) in defs_in_node(f, n):
                if n['k'] == 'declstmt':
                    d = [d for d in n['decls'] if d['id'] == vid][0]
                    if 'init' in d and is_bool_var_type(d['t']):
                        env = dict(env)
                        env[vid] = eval3(f, d['init'], env, pins)
                elif n['k'] == 'binop' and n['op'] == '=':
                    if is_bool_var_type(f.nodes[n['lhs']].get('t') or ''):
                        env = dict(env)
                        env[vid] = eval3(f, n['rhs'], env, pins)
                elif vid in env:
                    env = dict(env)
                    env[vid] = U
            if n['k'] == 'return':
                e = n.get('e')
                rets.add((n['i'], eval3(f, e, env, pins) if e is not None and e >= 0 else U, frozenset(env.items())))
                continue
        succ = p.succ
        cases = [(q, lab) for (q, lab) in succ if lab and lab[0] == 'case']
        if cases:
            # which switch is this? the terminator condition of the block the point closes
            cond = cases[0][1][4] if len(cases[0][1]) > 4 else None
            val = switch_vals.get(cond) if cond is not None else None
            if val is not None:
                exact = [(q, lab) for (q, lab) in cases if lab[3] == 'case' and lab[1] == val]
                succ = exact or [(q, lab) for (q, lab) in cases if lab[3] != 'case']
        for (q, lab) in succ:
            if lab and isinstance(lab[0], int) and lab[1] is f and p.ctx is g.root_ctx:
                cv = eval3(f, lab[0], env, pins)
                if cv is not U and cv != lab[2]:
                    continue
            stack.append((q, env))
    return rets, seenp
