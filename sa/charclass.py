"""Character-class normalisation: lower a predicate over one byte-valued subject expression to the exact set of
bytes (0..255) for which it is true.  Finite and exhaustive: every byte is evaluated."""
from .ir import strip_targs

CTYPE = {
    'isspace': frozenset([9, 10, 11, 12, 13, 32]),
    'isdigit': frozenset(range(48, 58)),
    'islower': frozenset(range(97, 123)),
    'isupper': frozenset(range(65, 91)),
    'isalpha': frozenset(list(range(65, 91)) + list(range(97, 123))),
    'isalnum': frozenset(list(range(48, 58)) + list(range(65, 91)) + list(range(97, 123))),
    'isxdigit': frozenset(list(range(48, 58)) + list(range(65, 71)) + list(range(97, 103))),
    'isprint': frozenset(range(32, 127)),
    'isgraph': frozenset(range(33, 127)),
    'ispunct': frozenset([b for b in range(33, 127) if not (48 <= b < 58 or 65 <= b < 91 or 97 <= b < 123)]),
}
ALL = frozenset(range(256))
PROG = None          # set by the driver: lets a predicate follow one-line character helpers of the analysed program
_depth = [0]


def _strip(f, idx):
    n = f.nodes[idx]
    h = 0
    while n['k'] == 'cast' and h < 5:
        n = f.nodes[n['e']]
        h += 1
    return n


def _value(f, idx, is_subject, b):
    """integer value of expression idx when the subject byte is b (None if unknown)"""
    n = f.nodes[idx]
    if is_subject(n['i']):
        t = n.get('t') or 'char'
        if t in ('char', 'signed char', 'const char') and b >= 128:
            return b - 256
        return b
    li = _local_init(f, n)
    if li is not None:
        return _value(f, li, is_subject, b)
    if n['k'] == 'cast':
        v = _value(f, n['e'], is_subject, b)
        if v is None:
            return None
        t = n.get('t') or ''
        if t in ('unsigned char', 'uint8_t'):
            return v & 0xff
        if t in ('char', 'signed char'):
            v &= 0xff
            return v - 256 if v >= 128 else v
        return v
    if 'v' in n:
        return n['v']
    if n['k'] == 'cond':
        t = _truth(f, n['cnd'], is_subject, b)
        if t is None:
            return None
        return _value(f, n['a'] if t else n['b'], is_subject, b)
    if n['k'] == 'call' and n.get('args') and strip_targs(n.get('c', '') or '').rsplit('::', 1)[-1] in ('toupper', 'tolower'):
        v = _value(f, n['args'][0], is_subject, b)
        if v is None:
            return None
        if strip_targs(n['c']).rsplit('::', 1)[-1] == 'toupper':
            return v - 32 if 97 <= v <= 122 else v
        return v + 32 if 65 <= v <= 90 else v
    if n['k'] == 'binop' and n['op'] in ('+', '-', '&', '|', '>>', '<<'):
        a, c = _value(f, n['lhs'], is_subject, b), _value(f, n['rhs'], is_subject, b)
        if a is None or c is None:
            return None
        return {'+': a + c, '-': a - c, '&': a & c, '|': a | c, '>>': a >> c, '<<': a << c}[n['op']]
    return None


_INIT_CACHE = {}


def _local_init(f, n):
    """initialiser of a local that is initialised at its declaration and never written again (a named sub-expression), else None"""
    if n['k'] != 'ref' or n.get('sk') != 'local' or 'id' not in n:
        return None
    key = (id(f), n['id'])
    if key not in _INIT_CACHE:
        from .expr import defs_in_node
        inits = [d.get('init') for m in f.nodes if m['k'] == 'declstmt' for d in m['decls'] if d['id'] == n['id']]
        written = any(v == n['id'] for m in f.nodes if m['k'] != 'declstmt' for (v, st, vx) in defs_in_node(f, m))
        _INIT_CACHE[key] = inits[0] if (len(inits) == 1 and inits[0] is not None and inits[0] >= 0 and not written) else None
    return _INIT_CACHE[key]


def _truth(f, idx, is_subject, b):
    n = f.nodes[idx]
    k = n['k']
    if not is_subject(n['i']):
        li = _local_init(f, n)
        if li is not None:
            return _truth(f, li, is_subject, b)
    if k == 'unop' and n['op'] == '!':
        t = _truth(f, n['e'], is_subject, b)
        return None if t is None else (not t)
    if k == 'cast':
        return _truth(f, n['e'], is_subject, b)
    if k == 'binop' and n['op'] in ('&&', '||'):
        a, c = _truth(f, n['lhs'], is_subject, b), _truth(f, n['rhs'], is_subject, b)
        if n['op'] == '&&':
            if a is False or c is False:
                return False
            return None if (a is None or c is None) else True
        if a is True or c is True:
            return True
        return None if (a is None or c is None) else False
    if k == 'binop' and n['op'] in ('<', '>', '<=', '>=', '==', '!='):
        a, c = _value(f, n['lhs'], is_subject, b), _value(f, n['rhs'], is_subject, b)
        if a is None or c is None:
            return None
        return {'<': a < c, '>': a > c, '<=': a <= c, '>=': a >= c, '==': a == c, '!=': a != c}[n['op']]
    if k == 'call' and PROG is not None and n.get('ck') in getattr(PROG, 'funcs', {}) and len(n.get('args', [])) == 1 and _depth[0] < 3:
        # a character predicate moved into a helper (`IsUnreservedChar(c)`): a function of one character whose body is a single
        # return - evaluated in place with the helper's parameter as the subject
        callee = PROG.funcs[n['ck']]
        rets = [m for m in callee.nodes if m['k'] == 'return' and m.get('e') is not None and m['e'] >= 0]
        loops = [m for m in callee.nodes if m['k'] in ('for', 'while', 'do', 'forrange')]
        if len(rets) == 1 and not loops and len(callee.params) == 1 and 'char' in (callee.params[0].get('t') or ''):
            v = _value(f, n['args'][0], is_subject, b)
            if v is None:
                return None
            pid_ = callee.params[0]['id']
            _depth[0] += 1
            try:
                return _truth(callee, rets[0]['e'], lambda i: callee.nodes[i]['k'] == 'ref' and callee.nodes[i].get('id') == pid_, v & 0xff)
            finally:
                _depth[0] -= 1
    if k == 'call':
        name = strip_targs(n.get('c', '') or '').rsplit('::', 1)[-1]
        if name in CTYPE and n.get('args'):
            v = _value(f, n['args'][0], is_subject, b)
            if v is None:
                return None
            if v < 0 or v > 255:
                return False      # negative argument: outside every C-locale class (formally undefined)
            return v in CTYPE[name]
        return None
    v = _value(f, idx, is_subject, b)
    if v is not None:
        return v != 0
    return None


def byteset(f, idx, is_subject):
    """frozenset of bytes for which predicate idx holds, or None if some byte cannot be decided"""
    out = set()
    for b in range(256):
        t = _truth(f, idx, is_subject, b)
        if t is None:
            return None
        if t:
            out.add(b)
    return frozenset(out)


def describe(s):
    if s is None:
        return '?'
    parts = []
    b = 0
    while b < 256:
        if b in s:
            e = b
            while e + 1 in s:
                e += 1
            parts.append(('0x%02x' % b) if e == b else '0x%02x-0x%02x' % (b, e))
            b = e + 1
        else:
            b += 1
    return '{' + ','.join(parts) + '}'


def bytevalue(f, idx, is_subject, b):
    """integer value of expression idx when the subject byte is b (None when it cannot be evaluated)"""
    return _value(f, idx, is_subject, b)
