"""Rule-instance bookkeeping, known findings, evidence, exit codes."""
import contextlib
import json
import os
import sys
import time

from .ir import VERIF, REPO, AnalysisBroken, strip_targs

HOLDS, VIOLATION, INCONCLUSIVE = 'HOLDS', 'VIOLATION', 'INCONCLUSIVE'


class Instance:
    __slots__ = ('rule', 'func', 'site', 'loc', 'verdict', 'detail', 'path', 'canary')

    def __init__(self, rule, func, site, loc, verdict, detail, path, canary):
        self.rule, self.func, self.site, self.loc = rule, func, site, loc
        self.verdict, self.detail, self.path, self.canary = verdict, detail, path, canary

    def as_dict(self):
        d = {'rule': self.rule, 'function': self.func, 'site': self.site, 'loc': self.loc,
             'verdict': self.verdict}
        if self.detail:
            d['detail'] = self.detail
        if self.path:
            d['path'] = self.path
        return d


class Checker:
    def __init__(self, pid, tier='quick'):
        self.pid = pid
        self.tier = tier
        self.instances = []
        self.canaries = []
        self._canary = False
        self._canary_name = None
        self.notes = []
        self.mins = {}
        self.rules_doc = {}
        self.t0 = time.time()
        self.analysed = {}

    # ---------------------------------------------------------------- reporting
    def _add(self, verdict, rule, f, site, node=None, detail='', path=None):
        fq = strip_targs(f.qn) if hasattr(f, 'qn') else str(f)
        loc = ''
        if hasattr(f, 'loc'):
            loc = f.loc(node) if node is not None else f.loc()
        inst = Instance(rule, fq, site, loc, verdict, detail, path, self._canary)
        (self.canaries if self._canary else self.instances).append(inst)
        return inst

    def holds(self, rule, f, site, node=None, detail=''):
        return self._add(HOLDS, rule, f, site, node, detail)

    def violation(self, rule, f, site, node=None, detail='', path=None):
        return self._add(VIOLATION, rule, f, site, node, detail, path)

    def inconclusive(self, rule, f, site, node=None, detail=''):
        return self._add(INCONCLUSIVE, rule, f, site, node, detail)

    def verdict(self, ok, rule, f, site, node=None, detail='', path=None):
        if ok:
            return self.holds(rule, f, site, node, detail)
        return self.violation(rule, f, site, node, detail, path)

    def note(self, s):
        self.notes.append(s)

    def doc(self, rule, text, minimum=1):
        """declare a rule: its one-line statement and the minimum number of instances confirmed by reading"""
        self.rules_doc[rule] = text
        self.mins[rule] = minimum

    @contextlib.contextmanager
    def canary(self, name):
        """Everything reported inside is a canary: it must contain at least one VIOLATION of `name`."""
        self._canary = True
        self._canary_name = name
        before = len(self.canaries)
        try:
            yield
        finally:
            self._canary = False
        got = [c for c in self.canaries[before:] if c.verdict == VIOLATION and c.rule == name]
        if not got:
            raise AnalysisBroken('canary for rule %s was not flagged: the rule matches nothing' % name)


def load_known():
    p = os.path.join(VERIF, 'known_findings.json')
    if not os.path.exists(p):
        return {'findings': [], 'fixed': []}
    with open(p) as fh:
        return json.load(fh)


def finish(ck, prog, explanation, not_decided, extra_cov=None):
    """Print the report, write evidence, return the exit code."""
    pid = ck.pid
    known = [k for k in load_known().get('findings', []) if k['property'] == pid]
    # instance minimums
    counts = {}
    for i in ck.instances:
        counts[i.rule] = counts.get(i.rule, 0) + 1
    broken = []
    for rule, m in ck.mins.items():
        if counts.get(rule, 0) < m:
            broken.append('rule %s matched %d instance(s), fewer than the %d confirmed by reading' %
                          (rule, counts.get(rule, 0), m))
    if getattr(ck, 'aborted', None):
        # the rule set stopped at a vanished anchor: the instance minimums of the rules that did not run say nothing
        broken = [ck.aborted]
    viol = [i for i in ck.instances if i.verdict == VIOLATION]
    inc = [i for i in ck.instances if i.verdict == INCONCLUSIVE]
    new_viol = []
    known_hit = []
    for v in viol:
        hit = None
        for k in known:
            if k['rule'] == v.rule and k['function'] == v.func and k['site'] == v.site:
                hit = k
                break
        if hit:
            known_hit.append((v, hit))
        else:
            new_viol.append(v)

    EVD = os.environ.get('VERIF_EVIDENCE_DIR') or os.path.join(VERIF, 'evidence')
    os.makedirs(os.path.join(EVD, 'replay'), exist_ok=True)
    print('property %s tier=%s: %d units, %d functions analysed; %d rule instances over %d rules; %d canaries flagged' % (
        pid, ck.tier, len(prog.units), len(prog.funcs), len(ck.instances), len(counts), len(ck.canaries)))
    for rule in sorted(ck.rules_doc):
        n = counts.get(rule, 0)
        h = sum(1 for i in ck.instances if i.rule == rule and i.verdict == HOLDS)
        print('  %-8s %3d/%-3d hold  %s' % (rule, h, n, ck.rules_doc[rule]))
    for s in ck.notes:
        print('  note: ' + s)
    for (v, k) in known_hit:
        print('KNOWN-FINDING: property=%s %s [%s %s %s]' % (pid, k['what'], v.rule, v.func, v.loc))
    rc = 0
    for n, v in enumerate(new_viol):
        rp = os.path.join(EVD, 'replay', '%s_%s_%d.json' % (pid, v.rule.replace('.', '_'), n))
        with open(rp, 'w') as fh:
            json.dump({'property': pid, 'instance': v.as_dict(),
                       'rule_text': ck.rules_doc.get(v.rule, ''),
                       'how_to_replay': './check %s --replay %s' % (pid, rp)}, fh, indent=1)
        print('  violation: rule=%s function=%s site=%s at %s: %s' % (v.rule, v.func, v.site, v.loc, v.detail))
        if v.path:
            print('    path: %s' % v.path)
        print('VIOLATION property=%s replay=%s' % (pid, rp))
        rc = 1
    for i in inc:
        print('ANALYSIS-INCOMPLETE rule=%s function=%s site=%s at %s: %s' % (i.rule, i.func, i.site, i.loc, i.detail))
    for b in broken:
        print('ANALYSIS-BROKEN ' + b)
    if rc == 0 and (inc or broken):
        rc = 2

    samples = [i.as_dict() for i in ck.instances[:400]]
    distinct = len({(i.rule, i.func, i.site) for i in ck.instances})
    cov = {
        'explanation': explanation,
        'rules': ck.rules_doc,
        'obligations': len(ck.instances),
        'discharged': sum(1 for i in ck.instances if i.verdict == HOLDS),
        'evaluations': len(ck.instances) + len(ck.canaries),
        'distinct_nontrivial': distinct,
        'rule': 'one evaluation = one rule instance (rule x function x semantic site) found in /repo by role; '
                'non-trivial = matched a real construct in /repo (canaries are counted in evaluations only); '
                'distinct = distinct (rule, function, site) triples',
        'samples': samples,
        'instances_per_rule': counts,
        'instance_minimums': dict(ck.mins),
        'canaries_flagged': [c.as_dict() for c in ck.canaries if c.verdict == VIOLATION][:60],
        'units_analysed': [u.replace(REPO + '/', '') for u in prog.units],
        'functions_analysed': len(prog.funcs),
        'records_analysed': len(prog.records),
        'known_findings_reported': [k['what'] for (_v, k) in known_hit],
        'inconclusive': [i.as_dict() for i in inc],
        'analysis_broken': broken,
        'not_decided': not_decided,
        'notes': ck.notes,
        'checker_cmd': './check %s --tier %s' % (pid, ck.tier),
        'trusted_base': ['clang 14 front end and CFG builder', 'tools/otel-ir extractor',
                         'frozen idiom/effect tables in sa/', 'configured preprocessor variant (ABI v1, nostd, regex)'],
        'exhaustive': True,
    }
    if extra_cov:
        cov.update(extra_cov)
    ev = {
        'property_id': pid,
        'tier': ck.tier,
        'seed': int(os.environ.get('VERIF_SEED', '0') or 0),
        'level': 'other',
        'coverage': cov,
        'assumptions': ['rules decide structural necessary conditions only; see not_decided',
                        'virtual calls into user-supplied exporters/samplers/handlers are opaque',
                        'exceptional control flow is not modelled'],
        'wall_s': round(time.time() - ck.t0, 2),
        'violations': len(new_viol),
    }
    with open(os.path.join(EVD, pid + '.json.tmp.%d' % os.getpid()), 'w') as fh:
        json.dump(ev, fh, indent=1)
    os.replace(os.path.join(EVD, pid + '.json.tmp.%d' % os.getpid()), os.path.join(EVD, pid + '.json'))
    print('%s: %s (%d obligations, %d hold, %d known findings, %d new violations, %d inconclusive) in %.1fs' % (
        pid, {0: 'OK', 1: 'VIOLATION', 2: 'ANALYSIS-BROKEN'}[rc], len(ck.instances), cov['discharged'],
        len(known_hit), len(new_viol), len(inc), time.time() - ck.t0))
    return rc
