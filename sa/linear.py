"""Guard normalisation: lower integer expressions to linear forms over role symbols and comparisons
to the canonical relation  sum(a_i * x_i) + c >= 0  (over mathematical integers)."""
from .expr import access_path, path_str, defs_in_node, is_transparent_call
from .ir import strip_targs
from .rules.common import atomic_op, comparison, FLIP


def _add(a, b, k=1):
    out = dict(a)
    for s, c in b.items():
        out[s] = out.get(s, 0) + k * c
        if out[s] == 0 and s != '1':
            del out[s]
    return out


def linear(g, rd, f, idx, ctx, depth=0):
    """dict symbol -> coefficient ('1' is the constant term) or None when not linear/unknown"""
    if idx is None or idx < 0 or depth > 16:
        return None
    n = f.nodes[idx]
    k = n['k']
    if k == 'lit' and 'v' in n:
        return {'1': n['v']} if n['v'] else {}
    if k == 'cast':
        return linear(g, rd, f, n['e'], ctx, depth + 1)
    if k == 'initlist' and len(n.get('ch', [])) == 1:
        return linear(g, rd, f, n['ch'][0], ctx, depth + 1)
    if k == 'construct' and n.get('copymove') and len(n.get('args', [])) == 1:
        return linear(g, rd, f, n['args'][0], ctx, depth + 1)
    if k == 'call' and is_transparent_call(n) and n.get('args'):
        return linear(g, rd, f, n['args'][0], ctx, depth + 1)
    if k == 'binop' and n['op'] in ('+', '-'):
        a = linear(g, rd, f, n['lhs'], ctx, depth + 1)
        b = linear(g, rd, f, n['rhs'], ctx, depth + 1)
        if a is None or b is None:
            return None
        return _add(a, b, 1 if n['op'] == '+' else -1)
    if k == 'binop' and n['op'] == '*':
        a = linear(g, rd, f, n['lhs'], ctx, depth + 1)
        b = linear(g, rd, f, n['rhs'], ctx, depth + 1)
        if a is None or b is None:
            return None
        for x, y in ((a, b), (b, a)):
            if set(x.keys()) <= {'1'}:
                c = x.get('1', 0)
                return {s: c * v for s, v in y.items() if c * v != 0}
        return None
    if k == 'binop' and n['op'] in ('%', '/', '>>', '<<', '&'):
        a = linear(g, rd, f, n['lhs'], ctx, depth + 1)
        b = linear(g, rd, f, n['rhs'], ctx, depth + 1)
        if a is None or b is None:
            return None
        return {'(%s)%s(%s)' % (fmt(a), n['op'], fmt(b)): 1}
    if k == 'unop' and n['op'] == '-':
        a = linear(g, rd, f, n['e'], ctx, depth + 1)
        return None if a is None else {s: -c for s, c in a.items()}
    if 'v' in n and k not in ('ref', 'member'):
        return {'1': n['v']} if n['v'] else {}
    if k == 'ref':
        sk = n.get('sk')
        if 'v' in n and sk in ('global', 'static_local', 'enum'):
            return {'1': n['v']} if n['v'] else {}
        if sk == 'param':
            if ctx is not None and ctx.call is not None and not ctx.lambda_of:
                for pi, p in enumerate(f.params):
                    if p['id'] == n.get('id'):
                        args = ctx.call.get('args', [])
                        if pi < len(args) and args[pi] is not None and args[pi] >= 0:
                            return linear(g, rd, ctx.caller, args[pi], ctx.parent, depth + 1)
            return {'param:%s' % n['name']: 1}
        if sk == 'local':
            pt = g.point_of.get((id(ctx), idx))
            if pt is None:
                return None
            defs = [g.points[d] for (v, d) in rd.get(pt.id, ()) if v == n.get('id')]
            vals = []
            for dp in defs:
                for (vid, strong, vx) in defs_in_node(dp.f, dp.n):
                    if vid == n.get('id'):
                        vals.append((dp, vx))
            if len(vals) != 1 or vals[0][1] is None or vals[0][1] == vals[0][0].n['i']:
                # several definitions, or defined through an out-parameter: the variable itself is the symbol
                return {'local:%s:%s' % (n.get('id'), n['name']): 1}
            dp, vx = vals[0]
            sub = linear(g, rd, dp.f, vx, dp.ctx, depth + 1)
            if sub is None:
                # initialised once from something that is not linear (std::min(...), a call): the variable itself is the symbol
                return {'local:%s:%s' % (n.get('id'), n['name']): 1}
            return sub
        if 'v' in n:
            return {'1': n['v']} if n['v'] else {}
        return None
    if k == 'member':
        if 'v' in n:
            return {'1': n['v']} if n['v'] else {}
        return {path_str(access_path(f, idx, ctx)): 1}
    if k == 'call':
        o = atomic_op(n)
        if o and o[0] == 'load':
            return {path_str(access_path(f, n['obj'], ctx)): 1}
        c = strip_targs(n.get('c', '') or '')
        last = c.rsplit('::', 1)[-1]
        if n.get('obj') is not None and not n.get('args') and access_path(f, n['obj'], ctx) == ('this',):
            # a trivial getter of the same object (`return capacity_ - 1;`): use what it returns
            callee = getattr(g, 'prog', None) and g.prog.funcs.get(n.get('ck'))
            if callee is not None and callee.blocks:
                rets = [m for m in callee.nodes if m['k'] == 'return']
                effects = [m for m in callee.nodes if m['k'] in ('call', 'construct', 'binop') and (m['k'] != 'binop' or m['op'].endswith('=') and m['op'] not in ('==', '!=', '<=', '>='))
                           and not (m['k'] == 'call' and atomic_op(m) and atomic_op(m)[0] == 'load')]
                if len(rets) == 1 and not effects and rets[0].get('e') is not None and rets[0]['e'] >= 0:
                    sub = linear(g, {}, callee, rets[0]['e'], None)
                    if sub is not None:
                        return sub
        if n.get('obj') is not None and last in ('size', 'length', 'count', 'max_size', 'Size'):
            return {'%s.%s()' % (path_str(access_path(f, n['obj'], ctx)), last): 1}
        if n.get('obj') is not None and n.get('cconst') and not n.get('args'):
            # a const getter without arguments: the call itself is the symbol
            return {'%s.%s()' % (path_str(access_path(f, n['obj'], ctx)), last): 1}
        return None
    if k == 'sizeof' and 'v' in n:
        return {'1': n['v']}
    return None


def fmt(lin):
    if lin is None:
        return '?'
    parts = []
    for s in sorted(k for k in lin if k != '1'):
        c = lin[s]
        parts.append(('%+d*' % c if abs(c) != 1 else ('+' if c > 0 else '-')) + s)
    if lin.get('1'):
        parts.append('%+d' % lin['1'])
    return ''.join(parts) or '0'


def relation(g, rd, f, cond_idx, ctx, polarity=True):
    """canonical form of a comparison taken with the given polarity:  ('>=0', lin) | ('==0', lin) | ('!=0', lin)
    or None.  lin is a frozenset of items for hashing/equality."""
    c = comparison(f, cond_idx)
    if not c:
        # a predicate moved into an inlined helper (`if (IsFull(head, tail))`): the relation its single return states, with the
        # helper's parameters resolved to the arguments of this call
        n = f.nodes[cond_idx]
        hops = 0
        while n['k'] in ('cast', 'paren') and hops < 4:
            n = f.nodes[n['e']]
            hops += 1
        if n['k'] == 'call' and getattr(g, 'ctxs', None):
            for c2 in g.ctxs:
                if c2 is not None and c2.call is n and c2.caller is f and c2.parent is ctx and not c2.lambda_of:
                    rets = [m for m in c2.f.nodes if m['k'] == 'return' and m.get('e') is not None and m['e'] >= 0]
                    if len(rets) == 1:
                        return relation(g, rd, c2.f, rets[0]['e'], c2, polarity)
        return None
    op, l, r = c
    a = linear(g, rd, f, l, ctx)
    b = linear(g, rd, f, r, ctx)
    if a is None or b is None:
        return None
    if not polarity:
        op = {'<': '>=', '>': '<=', '<=': '>', '>=': '<', '==': '!=', '!=': '=='}[op]
    if op == '>=':
        lin = _add(a, b, -1)
    elif op == '>':
        lin = _add(_add(a, b, -1), {'1': -1})
    elif op == '<=':
        lin = _add(b, a, -1)
    elif op == '<':
        lin = _add(_add(b, a, -1), {'1': -1})
    elif op in ('==', '!='):
        lin = _add(a, b, -1)
        # sign-normalise
        keys = sorted(k for k in lin if k != '1')
        if keys and lin[keys[0]] < 0:
            lin = {s: -v for s, v in lin.items()}
        return ('==0' if op == '==' else '!=0', frozenset((s, v) for s, v in lin.items() if v != 0))
    else:
        return None
    return ('>=0', frozenset((s, v) for s, v in lin.items() if v != 0))


def rel_str(rel):
    if rel is None:
        return '?'
    return '%s %s' % (fmt(dict(rel[1])), rel[0].replace('0', ' 0'))
