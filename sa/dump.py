"""debug: python3 -m sa.dump <unit> <function suffix>  -- print the CFG/nodes of a function"""
import sys, os
from . import ir
from .expr import access_path, path_str


def show_node(f, i, depth=0, maxd=6):
    n = f.nodes[i]
    k = n['k']
    s = k
    if k in ('call', 'construct'):
        s += ' ' + ir.strip_targs(n.get('c', '?') or '?')
        if n.get('op'): s += ' op' + n['op']
        if n.get('virt'): s += ' [virt]'
        if n.get('defargs'): s += ' defargs=%s' % n['defargs']
    elif k == 'member':
        s += ' ' + path_str(access_path(f, i))
    elif k == 'ref':
        s += ' %s(%s#%s)' % (n['name'], n.get('sk'), n.get('id'))
    elif k in ('binop', 'unop'):
        s += ' ' + n['op']
    elif k == 'declstmt':
        s += ' ' + ','.join('%s#%s:%s' % (d['name'], d['id'], d['t'][:40]) for d in n['decls'])
    elif k == 'lambda':
        s += ' ' + n.get('fn', '')[-60:]
    if 'v' in n: s += ' =%s' % n['v']
    return '%d:%s' % (i, s)


def main():
    unit, suffix = sys.argv[1], sys.argv[2]
    if not unit.startswith('/'):
        unit = os.path.join(ir.REPO, unit)
    prog = ir.load_program([unit])
    for f in prog.functions(suffix):
        print('=====', f.key[:200], f.loc())
        for b in sorted(f.blocks, key=lambda b: -b['id']):
            print(' B%d -> %s %s' % (b['id'], b.get('succ'), ('term=%s cnd=%s' % (b['t']['k'], b['t'].get('cnd'))) if 't' in b else ''),
                  ('label=%s' % b['label']) if 'label' in b else '')
            for e in b['el']:
                if isinstance(e, int):
                    print('     L%-4s %s' % (f.nodes[e].get('l'), show_node(f, e)))
                else:
                    print('     ', e)


if __name__ == '__main__':
    main()
