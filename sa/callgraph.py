"""Whole-program call graph over the analysed units (callees resolved by declaration)."""
from .ir import strip_targs, qmatch

THREAD_STARTERS = ('std::thread::thread', 'std::async', 'std::jthread::jthread')

# std:: leaves that may block the calling thread (frozen from reading; reason in DESIGN §2.3)
BLOCKING = (
    'std::mutex::lock', 'std::recursive_mutex::lock', 'std::timed_mutex::lock',
    'std::lock_guard::lock_guard', 'std::unique_lock::unique_lock', 'std::unique_lock::lock',
    'std::scoped_lock::scoped_lock',
    'std::condition_variable::wait', 'std::condition_variable::wait_for', 'std::condition_variable::wait_until',
    'std::condition_variable_any::wait', 'std::condition_variable_any::wait_for',
    'std::thread::join', 'std::this_thread::sleep_for', 'std::this_thread::sleep_until',
    'std::future::wait', 'std::future::get', 'std::future::wait_for', 'std::__basic_future::wait',
    'std::__basic_future::wait_for', 'std::__basic_future::wait_until',
    'opentelemetry::common::SpinLockMutex::lock',
)


def _strip_arg(f, a):
    n = f.nodes[a]
    hops = 0
    while hops < 5:
        if n['k'] == 'construct' and len(n.get('args', [])) == 1:
            n = f.nodes[n['args'][0]]
        elif n['k'] == 'cast':
            n = f.nodes[n['e']]
        else:
            break
        hops += 1
    return n


class CallGraph:
    def __init__(self, prog):
        self.prog = prog
        self.calls = {}        # key -> set of callee keys (direct calls, incl. virtual overriders, lambdas defined)
        self.threads = {}      # key -> set of keys started as threads
        self.sites = {}        # callee stripped qn -> [(Func, node)]
        self.extern = {}       # key -> set of stripped callee names without a body in the program
        for f in prog.funcs.values():
            cs = set()
            ts = set()
            ex = set()
            thread_lams = set()
            thread_fnrefs = set()
            for n in f.nodes:
                if n['k'] in ('call', 'construct'):
                    c = strip_targs(n.get('c', '') or '')
                    self.sites.setdefault(c, []).append((f, n))
                    if any(c == s or c.startswith(s) for s in THREAD_STARTERS):
                        for a in n.get('args', []):
                            if a is None or a < 0:
                                continue
                            an = _strip_arg(f, a)
                            if an['k'] == 'lambda':
                                ts.add(an.get('fn'))
                                thread_lams.add(an['i'])
                            elif an['k'] == 'unop' and an['op'] == '&':
                                r = f.nodes[an['e']]
                                if r['k'] == 'ref' and r.get('sk') == 'func':
                                    ts.add(r.get('ck'))
                                    thread_fnrefs.add(r['i'])
                            elif an['k'] == 'ref' and an.get('sk') == 'func':
                                ts.add(an.get('ck'))
                                thread_fnrefs.add(an['i'])
                        continue
                    ck = n.get('ck')
                    if ck:
                        if ck in prog.funcs:
                            cs.add(ck)
                        else:
                            ex.add(c)
                        if n.get('virt') and not n.get('qual'):
                            for o in prog.overriders(ck):
                                if o in prog.funcs:
                                    cs.add(o)
            for n in f.nodes:
                if n['k'] == 'lambda' and n['i'] not in thread_lams:
                    if n.get('fn') in prog.funcs:
                        cs.add(n['fn'])
                elif n['k'] == 'ref' and n.get('sk') == 'func' and n['i'] not in thread_fnrefs:
                    # address of a function taken (callback registration): conservative call edge
                    pm = f.parent_map()
                    par = pm.get(n['i'])
                    if par is not None:
                        pn = f.nodes[par]
                        if pn['k'] in ('call',) and pn.get('ck') == n.get('ck'):
                            continue  # the ordinary callee reference of a call expression
                        if pn['k'] == 'member':
                            continue
                    if n.get('ck') in prog.funcs:
                        cs.add(n['ck'])
            self.calls[f.key] = cs
            self.threads[f.key] = {t for t in ts if t}
            self.extern[f.key] = ex

    def reachable(self, roots, follow_threads=False, stop=()):
        seen = set()
        st = [r for r in roots if r]
        stop = set(stop)
        while st:
            k = st.pop()
            if k in seen or k in stop:
                continue
            seen.add(k)
            st.extend(self.calls.get(k, ()))
            if follow_threads:
                st.extend(self.threads.get(k, ()))
        return seen

    def callers_of(self, key):
        return [k for k, cs in self.calls.items() if key in cs]

    def path(self, src, dst):
        prev = {src: None}
        st = [src]
        while st:
            k = st.pop(0)
            if k == dst:
                out = []
                while k is not None:
                    out.append(k)
                    k = prev[k]
                return list(reversed(out))
            for c in self.calls.get(k, ()):
                if c not in prev:
                    prev[c] = k
                    st.append(c)
        return None

    def extern_reachable(self, roots):
        """stripped names of body-less callees reachable from roots (std:: leaves, user interfaces)"""
        out = {}
        for k in self.reachable(roots):
            for c in self.extern.get(k, ()):
                out.setdefault(c, k)
        return out
