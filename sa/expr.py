"""Expression-level helpers: access paths, condition normalisation, lock sets, reaching definitions,
value dependence."""
from .ir import qmatch, strip_targs

SMART_DEREF = ('operator->', 'operator*', 'get')
SMART_TYPES = ('std::unique_ptr', 'std::shared_ptr', 'opentelemetry::nostd::unique_ptr',
               'opentelemetry::nostd::shared_ptr', 'std::__uniq_ptr_impl', 'std::__shared_ptr',
               'std::__shared_ptr_access', 'std::weak_ptr')
TRANSPARENT_FUNCS = ('std::move', 'std::forward', 'std::addressof', 'std::ref', 'std::cref')
LOCK_TYPES = ('std::lock_guard<', 'std::unique_lock<', 'std::scoped_lock<', 'const std::lock_guard<')
MUTEX_TYPES = ('std::mutex', 'std::recursive_mutex', 'opentelemetry::common::SpinLockMutex', 'std::timed_mutex')


def is_smart_deref(n):
    if n['k'] != 'call':
        return False
    c = strip_targs(n.get('c', '') or '')
    if not any(c.startswith(t + '::') or c.startswith(t) for t in SMART_TYPES):
        return False
    last = c.rsplit('::', 1)[-1]
    return last in SMART_DEREF


def is_transparent_call(n):
    if n['k'] != 'call':
        return False
    c = strip_targs(n.get('c', '') or '')
    return c in TRANSPARENT_FUNCS


def _enclosing_ctx(ctx, fkey):
    c = ctx
    while c is not None:
        if c.f.key == fkey:
            return c
        c = c.parent
    return None


def access_path(f, idx, ctx=None, _depth=0):
    """Access path of expression idx in function f as a tuple, e.g. ('this','buffer_') or
    ('param:span',) or ('local:12:x','field').  With an inlining context the path is translated into
    the root function's frame where possible."""
    if idx is None or idx < 0 or _depth > 24:
        return ('?',)
    n = f.nodes[idx]
    k = n['k']
    if k == 'member':
        base = access_path(f, n['base'], ctx, _depth + 1)
        return base + (n['name'],)
    if k == 'this':
        if ctx is not None and ctx.parent is not None:
            if f.d.get('lambda'):
                pk = f.d.get('parent')
                ec = _enclosing_ctx(ctx.parent, pk) if pk else None
                if ec is not None:
                    return access_path_this(ec)
                return ('this',)
            return access_path_this(ctx)
        return ('this',)
    if k == 'ref':
        sk = n.get('sk')
        if sk == 'param':
            if ctx is not None and ctx.call is not None and ctx.f is f and not ctx.lambda_of:
                # bind to the caller's argument
                for pi, p in enumerate(f.params):
                    if p['id'] == n.get('id'):
                        args = ctx.call.get('args', [])
                        if pi < len(args) and args[pi] is not None and args[pi] >= 0:
                            ap = access_path(ctx.caller, args[pi], ctx.parent, _depth + 1)
                            if ap[0] != '?':
                                return ap
                        break
            return ('param:%s' % n['name'],)
        if sk in ('local', 'static_local', 'binding'):
            if sk == 'local':
                # a reference local bound to a member / parameter / global (`auto &sync = *synchronization_data_;`) is an alias: a
                # reference is never re-bound, so its path is the path of what it was bound to
                init = _ref_alias_init(f, n.get('id'))
                if init is not None:
                    ap = access_path(f, init, ctx, _depth + 1)
                    if ap[0] == 'this' or ap[0].startswith(('param:', 'global:')):
                        return ap
            return ('local:%s:%s' % (n.get('id'), n['name']),)
        if sk in ('global', 'tls'):
            return ('global:%s' % n.get('qn', n['name']),)
        if sk == 'enum':
            return ('enum:%s' % n.get('qn'),)
        if sk == 'func':
            return ('func:%s' % n.get('qn'),)
        return ('?',)
    if k == 'call':
        if is_smart_deref(n) and n.get('obj') is not None:
            return access_path(f, n['obj'], ctx, _depth + 1)
        if is_transparent_call(n) and n.get('args'):
            return access_path(f, n['args'][0], ctx, _depth + 1)
        if n.get('op') == '[]' and n.get('obj') is not None:
            return access_path(f, n['obj'], ctx, _depth + 1) + ('[]',)
        return ('call:%s' % strip_targs(n.get('c', '?') or '?'),)
    if k == 'unop' and n['op'] in ('*', '&'):
        return access_path(f, n['e'], ctx, _depth + 1)
    if k == 'cast':
        return access_path(f, n['e'], ctx, _depth + 1)
    if k == 'subscript':
        return access_path(f, n['base'], ctx, _depth + 1) + ('[]',)
    if k == 'construct' and n.get('copymove') and len(n.get('args', [])) == 1:
        return access_path(f, n['args'][0], ctx, _depth + 1)
    return ('?',)


_ALIAS_CACHE = {}


def _ref_alias_init(f, vid):
    """initialiser of a local declared with a reference type (lvalue reference, not a loop variable's hidden iterator), else None"""
    tab = _ALIAS_CACHE.get(id(f))
    if tab is None or tab[0] is not f:
        d_ = {}
        for m in f.nodes:
            if m['k'] == 'declstmt':
                for d in m['decls']:
                    t = (d.get('t') or '').rstrip()
                    if t.endswith('&') and not t.endswith('&&') and d.get('init') is not None and d['init'] >= 0:
                        d_[d['id']] = d['init']
        tab = (f, d_)
        _ALIAS_CACHE[id(f)] = tab
    return tab[1].get(vid)


def access_path_this(ctx):
    """path of `this` of the function executing in ctx, in root terms"""
    if ctx is None or ctx.parent is None or ctx.call is None:
        return ('this',)
    if ctx.lambda_of is not None or ctx.f.d.get('lambda'):
        pk = ctx.f.d.get('parent')
        ec = _enclosing_ctx(ctx.parent, pk) if pk else None
        if ec is not None:
            return access_path_this(ec)
        return ('this',)
    call = ctx.call
    if call['k'] == 'construct':
        return ('fresh:%s' % strip_targs(call.get('cls', '?')),)
    obj = call.get('obj')
    if obj is None:
        return ('?',)
    return access_path(ctx.caller, obj, ctx.parent)


def path_str(p):
    return '.'.join(p)


def norm_cond(f, idx):
    """strip negations and comparisons with true/false/nullptr: returns (core idx, polarity)"""
    pol = True
    for _ in range(12):
        n = f.nodes[idx]
        k = n['k']
        if k == 'unop' and n['op'] == '!':
            idx = n['e']
            pol = not pol
            continue
        if k == 'call' and n.get('op') == '!' and n.get('obj') is not None:
            idx = n['obj']
            pol = not pol
            continue
        if k == 'binop' and n['op'] in ('==', '!='):
            l, r = f.nodes[n['lhs']], f.nodes[n['rhs']]
            for a, b in ((l, r), (r, l)):
                if b['k'] == 'lit' and ('v' in b and b['v'] in (0, 1) and b.get('t') == 'bool' or b.get('null')):
                    truth = bool(b.get('v', 0)) if not b.get('null') else False
                    same = (n['op'] == '==') == truth
                    idx = a['i']
                    if not same:
                        pol = not pol
                    break
            else:
                return idx, pol
            continue
        if k == 'call' and n.get('op') in ('==', '!='):
            ops = ([n['obj']] if n.get('obj') is not None else []) + list(n.get('args', []))
            if len(ops) == 2:
                l, r = f.nodes[ops[0]], f.nodes[ops[1]]
                done = False
                for a, b in ((l, r), (r, l)):
                    if b['k'] == 'lit' and b.get('null'):
                        idx = a['i']
                        if n['op'] == '==':
                            pol = not pol
                        done = True
                        break
                if done:
                    continue
            return idx, pol
        if k == 'call' and qmatch(n.get('c', ''), 'operator bool') and n.get('obj') is not None:
            idx = n['obj']
            continue
        if k == 'cast' and n.get('t') == 'bool':
            idx = n['e']
            continue
        return idx, pol
    return idx, pol


# ------------------------------------------------------------------------------------------ locks
def lock_decl(f, n):
    """for a declstmt node: list of (varid, mutex expr idx) for RAII lock guards it declares"""
    out = []
    if n['k'] != 'declstmt':
        return out
    for d in n['decls']:
        t = d['t']
        if t.startswith('const '):
            t = t[6:]
        if any(t.startswith(x) for x in LOCK_TYPES) and 'init' in d:
            init = f.nodes[d['init']]
            if init['k'] == 'construct' and init.get('args'):
                deferred = False
                if len(init['args']) > 1:
                    a1 = f.nodes[init['args'][1]]
                    if 'defer_lock' in (a1.get('qn') or a1.get('t') or ''):
                        deferred = True
                out.append((d['id'], init['args'][0], deferred))
    return out


def held_locks(g):
    """must-held lock analysis over graph g: returns dict point id -> frozenset of mutex path strings
    held *before* the point executes."""
    guard_mutex = {}

    def transfer(p, st):
        n = p.n
        if n is not None:
            if n['k'] == 'declstmt':
                for (vid, mexpr, deferred) in lock_decl(p.f, n):
                    path = path_str(access_path(p.f, mexpr, p.ctx))
                    guard_mutex[(vid, id(p.ctx))] = path
                    if not deferred:
                        st = st | {(vid, id(p.ctx), path)}
            elif n['k'] == 'call' and n.get('obj') is not None:
                c = strip_targs(n.get('c', '') or '')
                last = c.rsplit('::', 1)[-1]
                if last in ('lock', 'unlock', 'try_lock'):
                    on = p.f.nodes[n['obj']]
                    if c.startswith('std::unique_lock'):
                        if on['k'] == 'ref':
                            key = (on.get('id'), id(p.ctx))
                            if last == 'unlock':
                                st = frozenset(x for x in st if (x[0], x[1]) != key)
                            elif last == 'lock' and key in guard_mutex:
                                st = st | {(key[0], key[1], guard_mutex[key])}
                    elif any(c.startswith(m) for m in MUTEX_TYPES):
                        path = path_str(access_path(p.f, n['obj'], p.ctx))
                        if last == 'lock':
                            st = st | {(None, None, path)}
                        elif last == 'unlock':
                            st = frozenset(x for x in st if not (x[0] is None and x[2] == path))
        elif p.el is not None and 'dtor' in p.el:
            key = (p.el['dtor'], id(p.ctx))
            st = frozenset(x for x in st if (x[0], x[1]) != key)
        return st

    def meet(states):
        r = states[0]
        for s in states[1:]:
            r = r & s
        return r

    IN, OUT = g.forward(frozenset(), transfer, meet, entry_state=frozenset())
    return {pid: frozenset(x[2] for x in st) for pid, st in IN.items()}


# ------------------------------------------------------------------------------------------ defs
def _strip_to_ref(f, idx):
    n = f.nodes[idx]
    hops = 0
    while n['k'] in ('cast',) and hops < 4:
        n = f.nodes[n['e']]
        hops += 1
    return n


def defs_in_node(f, n):
    """(varid, strong, value idx or None) definitions performed by node n itself (not its children)"""
    out = []
    k = n['k']
    if k == 'declstmt':
        for d in n['decls']:
            out.append((d['id'], True, d.get('init')))
    elif k == 'binop' and (n['op'] == '=' or (n['op'].endswith('=') and n['op'] not in ('==', '!=', '<=', '>='))):
        l = _strip_to_ref(f, n['lhs'])
        if l['k'] == 'ref' and 'id' in l:
            out.append((l['id'], True, n['i'] if n['op'] != '=' else n['rhs']))
    elif k == 'unop' and n['op'] in ('++', '--'):
        l = _strip_to_ref(f, n['e'])
        if l['k'] == 'ref' and 'id' in l:
            out.append((l['id'], True, n['i']))
    elif k in ('call', 'construct'):
        pm = n.get('pm', [])
        for ai, a in enumerate(n.get('args', [])):
            if a is None or a < 0:
                continue
            an = f.nodes[a]
            mode = pm[ai] if ai < len(pm) else 0
            if mode in (1, 2, 3):
                t = an
                if t['k'] == 'unop' and t['op'] == '&':
                    t = f.nodes[t['e']]
                if t['k'] == 'call' and is_transparent_call(t) and t.get('args'):
                    t = f.nodes[t['args'][0]]
                if t['k'] == 'ref' and 'id' in t:
                    out.append((t['id'], False, n['i']))
        if k == 'call' and n.get('obj') is not None and not n.get('cconst'):
            on = f.nodes[n['obj']]
            if on['k'] == 'ref' and 'id' in on:
                if n.get('op') == '=' and len(n.get('args', [])) == 1:
                    out.append((on['id'], True, n['args'][0]))
                elif n.get('op') in ('+=', '-=', '|=', '&=', '*=', '/='):
                    out.append((on['id'], True, n['i']))
                else:
                    out.append((on['id'], False, n['i']))
    return out


def reaching_defs(g, skip_edge=None):
    """IN state per point: frozenset of (varid, def point id); skip_edge(p,q,label) removes edges"""
    root = g.root_ctx

    def transfer(p, st):
        if p.n is None:
            return st
        if p.n['k'] == 'return' and p.ctx is not root and p.ctx is not None and not p.ctx.lambda_of:
            # the value an inlined helper returns: a definition of the pseudo variable ('ret', context)
            rv = ('ret', id(p.ctx))
            st = frozenset(x for x in st if x[0] != rv) | {(rv, p.id)}
        ds = defs_in_node(p.f, p.n)
        if not ds:
            return st
        for (vid, strong, _v) in ds:
            if strong:
                st = frozenset(x for x in st if x[0] != vid)
        return st | {(vid, p.id) for (vid, _s, _v) in ds}

    def meet(states):
        r = states[0]
        for s in states[1:]:
            r = r | s
        return r
    IN, OUT = g.forward(frozenset(), transfer, meet, entry_state=frozenset(), skip_edge=skip_edge)
    return IN


def all_defs(f):
    """flow-insensitive: varid -> [(node, strong, value idx)] over the whole function (and nothing else)"""
    out = {}
    for n in f.nodes:
        for (vid, strong, v) in defs_in_node(f, n):
            out.setdefault(vid, []).append((n, strong, v))
    return out


def leaves(f, idx, prog=None, follow_locals=True, _seen=None, _defs=None, through_calls=True):
    """Flow-insensitive dependence leaves of expression idx in f: set of tuples
       ('param', name) ('field', path-string) ('call', callee, node idx) ('lit', v) ('global', qn)
       ('this',) ('local', id, name) for locals without definitions we can see."""
    if _seen is None:
        _seen = set()
    if _defs is None:
        _defs = all_defs(f) if follow_locals else {}
    out = set()
    st = [idx]
    while st:
        i = st.pop()
        if i is None or i < 0 or i in _seen:
            continue
        _seen.add(i)
        n = f.nodes[i]
        k = n['k']
        if k == 'ref':
            sk = n.get('sk')
            if sk == 'param':
                out.add(('param', n['name']))
            elif sk in ('local', 'static_local', 'binding'):
                ds = _defs.get(n.get('id'))
                if follow_locals and ds:
                    for (dn, strong, v) in ds:
                        if v is not None and v != i:
                            st.append(v)
                        elif dn['k'] == 'declstmt':
                            pass
                    # captured-by-reference locals of an enclosing function have no defs here
                else:
                    out.add(('local', n.get('id'), n['name']))
            elif sk in ('global', 'tls'):
                out.add(('global', n.get('qn')))
            elif sk == 'enum':
                out.add(('enum', n.get('qn')))
            continue
        if k == 'member':
            p = access_path(f, i)
            if p[0] == 'this':
                out.add(('field', path_str(p)))
                continue
            # member of something else: depends on the base
            out.add(('memberof', n['name']))
            st.append(n['base'])
            continue
        if k == 'this':
            out.add(('this',))
            continue
        if k == 'lit':
            out.add(('lit', n.get('v', n.get('fv'))))
            continue
        if k == 'str':
            out.add(('str', n.get('s')))
            continue
        if k in ('call', 'construct'):
            out.add(('call', strip_targs(n.get('c', '?') or '?'), i))
            if through_calls:
                if n.get('obj') is not None:
                    st.append(n['obj'])
                st.extend(a for a in n.get('args', []) if a is not None)
            continue
        st.extend(f.children(n))
    return out


def calls_in(f, idx):
    """call/construct nodes in the subtree of idx"""
    return [f.nodes[i] for i in f.subtree(idx) if f.nodes[i]['k'] in ('call', 'construct')]


def const_value(f, idx):
    n = f.nodes[idx]
    if 'v' in n:
        return n['v']
    if 'vs' in n:
        return int(n['vs'])
    return None


def origins(g, rd, f, idx, ctx, depth=0, seen=None):
    """Follow an expression back through local variables (flow-sensitive reaching definitions),
    parameter bindings of inlined calls, casts and transparent wrappers.  Returns a list of
    (Func, node, ctx) source nodes (calls, members, literals, unbound parameters...)."""
    if seen is None:
        seen = set()
    out = []
    if idx is None or idx < 0 or depth > 12:
        return out
    n = f.nodes[idx]
    key = (id(ctx), f.key, idx)
    if key in seen:
        return out
    seen.add(key)
    k = n['k']
    if k == 'cast':
        return origins(g, rd, f, n['e'], ctx, depth + 1, seen)
    if k == 'call' and is_transparent_call(n) and n.get('args'):
        return origins(g, rd, f, n['args'][0], ctx, depth + 1, seen)
    if k == 'construct' and n.get('copymove') and len(n.get('args', [])) == 1:
        return origins(g, rd, f, n['args'][0], ctx, depth + 1, seen)
    if k == 'call':
        # a helper that was inlined into the graph: the value is what the helper returns
        for c in getattr(g, 'ctxs', ()):
            if c.call is n and c.parent is ctx and not c.lambda_of:
                res = []
                pt = g.point_of.get((id(ctx), idx))
                reach = None
                if pt is not None:
                    reach = {d for (v, d) in rd.get(pt.id, ()) if v == ('ret', id(c))}
                for p in g.points:
                    if p.ctx is c and p.n is not None and p.n['k'] == 'return' and p.n.get('e') is not None and p.n['e'] >= 0:
                        if reach is not None and reach and p.id not in reach:
                            continue   # this return does not reach the call site under the (possibly restricted) flow
                        res.extend(origins(g, rd, c.f, p.n['e'], c, depth + 1, seen))
                if res:
                    return res
    if k == 'ref':
        sk = n.get('sk')
        if sk == 'param' and ctx is not None and ctx.call is not None and not ctx.lambda_of:
            for pi, p in enumerate(f.params):
                if p['id'] == n.get('id'):
                    args = ctx.call.get('args', [])
                    if pi < len(args) and args[pi] is not None and args[pi] >= 0:
                        return origins(g, rd, ctx.caller, args[pi], ctx.parent, depth + 1, seen)
            return [(f, n, ctx)]
        if sk in ('local', 'static_local'):
            pt = g.point_of.get((id(ctx), idx))
            defs = []
            if pt is not None:
                defs = [g.points[d] for (v, d) in rd.get(pt.id, ()) if v == n.get('id')]
            if not defs:
                # captured variable of an enclosing function: look for its definitions anywhere in the graph
                for p in g.points:
                    if p.n is not None:
                        for (vid, strong, vx) in defs_in_node(p.f, p.n):
                            if vid == n.get('id'):
                                defs.append(p)
            res = []
            for dp in defs:
                for (vid, strong, vx) in defs_in_node(dp.f, dp.n):
                    if vid == n.get('id'):
                        if vx is None:
                            continue
                        if vx == dp.n['i'] and dp.n['k'] != 'declstmt':
                            # compound assignment / increment / by-reference call: the node itself is a source
                            res.append((dp.f, dp.n, dp.ctx))
                        else:
                            res.extend(origins(g, rd, dp.f, vx, dp.ctx, depth + 1, seen))
            return res or [(f, n, ctx)]
        return [(f, n, ctx)]
    if k == 'binop' and n['op'] in ('+', '-') :
        # x + const : follow the non-constant side too
        l, r = f.nodes[n['lhs']], f.nodes[n['rhs']]
        if 'v' in r and r['k'] == 'lit':
            return [(f, n, ctx)] + origins(g, rd, f, n['lhs'], ctx, depth + 1, seen)
        if 'v' in l and l['k'] == 'lit':
            return [(f, n, ctx)] + origins(g, rd, f, n['rhs'], ctx, depth + 1, seen)
    return [(f, n, ctx)]
