"""Normal form of the small regular expressions the library validates names with.

language(pat) -> frozenset of sequences, each a tuple of (byte set, min, max) items, or None when the pattern uses a
construct outside the fragment (back references, look-around, nested repeated groups).  Supported: ^ $ anchors, literals,
escapes (\\x41, \\-, \\.), classes with ranges and negation, '.', quantifiers ? * + {m} {m,} {m,n} on single atoms, groups
(capturing and (?:...)) with alternation inside, and the quantifier ? on a group.  Two patterns denote the same language
if their normal forms are equal (the converse does not hold in general; adjacent items over the same class are merged, which
is enough for the shapes used here)."""


def _parse_class(s, i):
    assert s[i] == '['
    i += 1
    neg = False
    if i < len(s) and s[i] == '^':
        neg = True
        i += 1
    out = set()
    first = True

    def one(i):
        c = s[i]
        if c == '\\' and i + 1 < len(s):
            if s[i + 1] == 'x' and i + 3 < len(s):
                return int(s[i + 2:i + 4], 16), i + 4
            return ord(s[i + 1]), i + 2
        return ord(c), i + 1
    while i < len(s) and (s[i] != ']' or first):
        first = False
        lo, j = one(i)
        if j + 1 < len(s) and s[j] == '-' and s[j + 1] != ']':
            hi, j2 = one(j + 1)
            out |= set(range(lo, hi + 1))
            i = j2
        else:
            out.add(lo)
            i = j
    i += 1
    if neg:
        out = set(range(256)) - out
    return frozenset(out), i


class Unsupported(Exception):
    pass


def _quant(s, i):
    if i < len(s) and s[i] == '{':
        j = s.index('}', i)
        parts = s[i + 1:j].split(',')
        lo = int(parts[0])
        hi = lo if len(parts) == 1 else (int(parts[1]) if parts[1] else None)
        return lo, hi, j + 1
    if i < len(s) and s[i] in '?*+':
        lo, hi = {'?': (0, 1), '*': (0, None), '+': (1, None)}[s[i]]
        return lo, hi, i + 1
    return 1, 1, i


def _alt(s, i, depth):
    """parse alternatives until ')' or end; returns (set of sequences, next index)"""
    alts = set()
    cur = {()}
    while i < len(s):
        c = s[i]
        if c == ')':
            if depth == 0:
                raise Unsupported('unbalanced )')
            break
        if c == '|':
            alts |= cur
            cur = {()}
            i += 1
            continue
        if c == '^' or (c == '$'):
            i += 1
            continue
        if c == '(':
            j = i + 1
            if s.startswith('?:', j):
                j += 2
            elif s.startswith('?', j):
                raise Unsupported('look-around')
            inner, j = _alt(s, j, depth + 1)
            if j >= len(s) or s[j] != ')':
                raise Unsupported('unbalanced (')
            j += 1
            lo, hi, j = _quant(s, j)
            if (lo, hi) == (1, 1):
                opts = inner
            elif (lo, hi) == (0, 1):
                opts = inner | {()}
            else:
                raise Unsupported('repeated group')
            cur = {a + b for a in cur for b in opts}
            if len(cur) > 64:
                raise Unsupported('too many alternatives')
            i = j
            continue
        if c == '[':
            cls, i = _parse_class(s, i)
        elif c == '\\' and i + 1 < len(s):
            if s[i + 1] == 'x' and i + 3 < len(s):
                cls, i = frozenset([int(s[i + 2:i + 4], 16)]), i + 4
            elif s[i + 1] in 'dwsDWSb':
                raise Unsupported('class escape')
            else:
                cls, i = frozenset([ord(s[i + 1])]), i + 2
        elif c == '.':
            cls, i = frozenset(range(256)) - frozenset([10]), i + 1
        else:
            cls, i = frozenset([ord(c)]), i + 1
        lo, hi, i = _quant(s, i)
        cur = {a + ((cls, lo, hi),) for a in cur}
    alts |= cur
    return alts, i


def _canon(seq):
    out = []
    for (cls, lo, hi) in seq:
        if (lo, hi) == (0, 0):
            continue
        if out and out[-1][0] == cls:
            plo, phi = out[-1][1], out[-1][2]
            out[-1] = (cls, plo + lo, None if phi is None or hi is None else phi + hi)
        else:
            out.append((cls, lo, hi))
    return tuple(out)


def language(pat):
    try:
        alts, i = _alt(pat, 0, 0)
        if i != len(pat):
            return None
    except (Unsupported, ValueError, IndexError):
        return None
    return frozenset(_canon(a) for a in alts)


def describe(lang, name=lambda c: '%d bytes' % len(c)):
    if lang is None:
        return 'outside the supported fragment'
    return ' | '.join(' '.join('%s{%s,%s}' % (name(c), lo, '' if hi is None else hi) for (c, lo, hi) in seq) or '(empty)' for seq in sorted(lang, key=len))
