"""Finite-table evaluation of loop-free integer / pointer arithmetic.

`ieval` folds an expression to a concrete value when the role symbols it depends on (members, atomic loads, parameters, const
getters such as size()) are *pinned* to representative values by the rule - conditional constant propagation over the expression
forest; nothing of the analysed program is executed.  It is used by table rules that enumerate a small finite domain (queue
geometry for capacities 2..4, sub-range selection for lengths 0..3) and compare what the code computes in each row with what the
specification demands, so that the verdict does not depend on how a guard or an index is spelled.

Values: int, bool, or ('ptr', base symbol, offset) for a pointer into the storage named by the base symbol.
Unknown -> None (the caller turns that into INCONCLUSIVE, never into a verdict)."""
from .expr import access_path, path_str, defs_in_node, is_transparent_call
from .ir import strip_targs
from .rules.common import atomic_op

U64 = (1 << 64)


def _wrap(v, t):
    if isinstance(v, bool) or not isinstance(v, int):
        return v
    t = t or ''
    if 'unsigned long' in t or 'size_t' in t or 'uint64' in t:
        return v % U64
    if t in ('unsigned int', 'uint32_t'):
        return v % (1 << 32)
    return v


def _by_value_pointer_arg(f, n, vid):
    """n is a call / construct that receives the pointer variable vid by value (mode 3: pointer to non-const): the callee may write
    through the pointer but cannot re-seat the caller's variable, so for the *value of the pointer* this is no definition"""
    if n['k'] not in ('call', 'construct'):
        return False
    pm = n.get('pm', [])
    hit = False
    for ai, a in enumerate(n.get('args', [])):
        if a is None or a < 0:
            continue
        an = f.nodes[a]
        if an['k'] == 'ref' and an.get('id') == vid:
            if (pm[ai] if ai < len(pm) else 0) != 3:
                return False
            hit = True
        elif an['k'] == 'unop' and an['op'] == '&' and f.nodes[an['e']].get('id') == vid:
            return False
    on = f.nodes[n['obj']] if n.get('obj') is not None else None
    if on is not None and on['k'] == 'ref' and on.get('id') == vid:
        return False
    return hit


def ieval(g, rd, f, idx, ctx, env, depth=0):
    if idx is None or idx < 0 or depth > 24:
        return None
    n = f.nodes[idx]
    k = n['k']
    if k == 'lit' and 'v' in n:
        return n['v']
    if k in ('cast', 'paren'):
        v = ieval(g, rd, f, n['e'], ctx, env, depth + 1)
        if isinstance(v, bool) and 'bool' not in (n.get('t') or ''):
            return int(v)
        if 'bool' == (n.get('t') or '') and isinstance(v, int):
            return bool(v)
        return _wrap(v, n.get('t'))
    if k == 'initlist' and len(n.get('ch', [])) == 1:
        return ieval(g, rd, f, n['ch'][0], ctx, env, depth + 1)
    if k == 'construct' and n.get('copymove') and len(n.get('args', [])) == 1:
        return ieval(g, rd, f, n['args'][0], ctx, env, depth + 1)
    if k == 'cond':
        c = ieval(g, rd, f, n['cnd'], ctx, env, depth + 1)
        if c is None:
            return None
        return ieval(g, rd, f, n['a'] if c else n['b'], ctx, env, depth + 1)
    if k == 'unop':
        v = ieval(g, rd, f, n['e'], ctx, env, depth + 1)
        if n['op'] == '&':
            return ('ptr', v[1], v[2]) if isinstance(v, tuple) and v[0] == 'elem' else None
        if n['op'] == '*' and isinstance(v, tuple) and v[0] == 'ptr':
            return ('elem', v[1], v[2])
        if v is None or isinstance(v, tuple):
            return None
        if n['op'] == '!':
            return not v
        if n['op'] == '-':
            return _wrap(-int(v), n.get('t'))
        if n['op'] == '+':
            return v
        return None
    if k == 'binop':
        op = n['op']
        if op in ('&&', '||'):
            a = ieval(g, rd, f, n['lhs'], ctx, env, depth + 1)
            if a is not None and not isinstance(a, tuple):
                if op == '&&' and not a:
                    return False
                if op == '||' and a:
                    return True
            b = ieval(g, rd, f, n['rhs'], ctx, env, depth + 1)
            if a is None or b is None or isinstance(a, tuple) or isinstance(b, tuple):
                if b is not None and not isinstance(b, tuple) and ((op == '&&' and not b) or (op == '||' and b)):
                    return bool(b)
                return None
            return bool(a and b) if op == '&&' else bool(a or b)
        a = ieval(g, rd, f, n['lhs'], ctx, env, depth + 1)
        b = ieval(g, rd, f, n['rhs'], ctx, env, depth + 1)
        if a is None or b is None:
            return None
        pa, pb = isinstance(a, tuple), isinstance(b, tuple)
        if pa or pb:
            if op == '+' and pa != pb:
                p, i = (a, b) if pa else (b, a)
                return (p[0], p[1], p[2] + int(i)) if p[0] == 'ptr' else None
            if op == '-' and pa and not pb and a[0] == 'ptr':
                return ('ptr', a[1], a[2] - int(b))
            if op == '-' and pa and pb and a[0] == b[0] == 'ptr' and a[1] == b[1]:
                return a[2] - b[2]
            if op in ('==', '!=', '<', '<=', '>', '>=') and pa and pb and a[:2] == b[:2]:
                a, b = a[2], b[2]
            else:
                return None
        a_, b_ = int(a), int(b)
        try:
            if op == '+':
                return _wrap(a_ + b_, n.get('t'))
            if op == '-':
                return _wrap(a_ - b_, n.get('t'))
            if op == '*':
                return _wrap(a_ * b_, n.get('t'))
            if op == '/':
                return None if b_ == 0 else a_ // b_
            if op == '%':
                return None if b_ == 0 else a_ % b_
            if op == '<<':
                return _wrap(a_ << b_, n.get('t'))
            if op == '>>':
                return a_ >> b_
            if op == '&':
                return a_ & b_
            if op == '|':
                return a_ | b_
            if op == '^':
                return a_ ^ b_
            if op == '==':
                return a_ == b_
            if op == '!=':
                return a_ != b_
            if op == '<':
                return a_ < b_
            if op == '<=':
                return a_ <= b_
            if op == '>':
                return a_ > b_
            if op == '>=':
                return a_ >= b_
        except (OverflowError, ValueError):
            return None
        return None
    if k == 'subscript':
        b = ieval(g, rd, f, n['base'], ctx, env, depth + 1) if n.get('base') is not None else None
        i = ieval(g, rd, f, n['index'], ctx, env, depth + 1)
        if isinstance(b, tuple) and b[0] == 'ptr' and isinstance(i, int):
            return ('elem', b[1], b[2] + i)
        return None
    if k == 'ref':
        sk = n.get('sk')
        if 'v' in n and sk in ('global', 'static_local', 'enum'):
            return n['v']
        if 'vs' in n and sk in ('global', 'static_local', 'enum'):
            try:
                return int(n['vs'])
            except ValueError:
                return None
        if sk == 'param':
            if ctx is not None and ctx.call is not None and not ctx.lambda_of:
                for pi, p in enumerate(f.params):
                    if p['id'] == n.get('id'):
                        args = ctx.call.get('args', [])
                        if pi < len(args) and args[pi] is not None and args[pi] >= 0:
                            return ieval(g, rd, ctx.caller, args[pi], ctx.parent, env, depth + 1)
            return env.get('param:%s' % n['name'])
        if sk == 'local':
            if ('local:%s' % n['name']) in env:
                return env['local:%s' % n['name']]
            pt = g.point_of.get((id(ctx), idx))
            if pt is None:
                return None
            defs = [g.points[d] for (v, d) in rd.get(pt.id, ()) if v == n.get('id')]
            vals = []
            for dp in defs:
                for (vid, strong, vx) in defs_in_node(dp.f, dp.n):
                    if vid == n.get('id'):
                        vals.append((dp, vx))
            got = set()
            vals = [(dp, vx) for (dp, vx) in vals if not _by_value_pointer_arg(dp.f, dp.n, n.get('id'))]
            for dp, vx in vals:
                if vx is None or vx == dp.n['i']:
                    return None
                got.add(repr(ieval(g, rd, dp.f, vx, dp.ctx, env, depth + 1)))
            if len(got) == 1:
                dp, vx = vals[0]
                return ieval(g, rd, dp.f, vx, dp.ctx, env, depth + 1)
            return None
        if 'v' in n:
            return n['v']
        return None
    if k == 'member':
        if 'v' in n:
            return n['v']
        return env.get(path_str(access_path(f, idx, ctx)))
    if k == 'call':
        o = atomic_op(n)
        if o and o[0] == 'load':
            return env.get(path_str(access_path(f, n['obj'], ctx)))
        if is_transparent_call(n) and n.get('args'):
            return ieval(g, rd, f, n['args'][0], ctx, env, depth + 1)
        c = strip_targs(n.get('c', '') or '')
        last = c.rsplit('::', 1)[-1]
        if ('call:' + last) in env:
            return env['call:' + last]
        if c in ('std::min', 'std::max') and len(n.get('args', [])) == 2:
            a = ieval(g, rd, f, n['args'][0], ctx, env, depth + 1)
            b = ieval(g, rd, f, n['args'][1], ctx, env, depth + 1)
            if isinstance(a, int) and isinstance(b, int) and not isinstance(a, bool) and not isinstance(b, bool):
                return min(a, b) if c == 'std::min' else max(a, b)
            return None
        if n.get('op') == '[]' and n.get('obj') is not None and n.get('args'):
            b = env.get(path_str(access_path(f, n['obj'], ctx)) + '.data()')
            i = ieval(g, rd, f, n['args'][0], ctx, env, depth + 1)
            if isinstance(b, tuple) and isinstance(i, int):
                return ('elem', b[1], b[2] + i)
            return None
        if n.get('obj') is not None and not n.get('args'):
            key = '%s.%s()' % (path_str(access_path(f, n['obj'], ctx)), last)
            if key in env:
                return env[key]
            if last in ('get', 'data', 'begin'):
                return env.get(path_str(access_path(f, n['obj'], ctx)) + '.data()')
            if last == 'empty':
                s = env.get('%s.size()' % path_str(access_path(f, n['obj'], ctx)))
                return None if s is None else s == 0
        return None
    if 'v' in n:
        return n['v']
    return None


def pin_conditions(g, rd, f, env):
    """node idx -> bool for every comparison / logical node of f that folds to a constant under env"""
    pins = {}
    for n in f.nodes:
        if n['k'] == 'binop' and n['op'] in ('==', '!=', '<', '<=', '>', '>='):
            v = ieval(g, rd, f, n['i'], g.root_ctx, env)
            if isinstance(v, bool):
                pins[n['i']] = v
        elif n['k'] == 'call' and (n.get('t') or '') == 'bool' and n.get('obj') is not None and not n.get('args'):
            v = ieval(g, rd, f, n['i'], g.root_ctx, env)
            if isinstance(v, bool):
                pins[n['i']] = v
    return pins
