"""Element-level control-flow graphs with bounded inlining, dominance, reachability and the small
dataflow analyses the rules share (held locks, reaching definitions)."""
from collections import deque

from .ir import qmatch, strip_targs


class Point:
    __slots__ = ('id', 'f', 'n', 'el', 'ctx', 'succ', 'pred', 'kind', 'block')

    def __init__(self, pid, f, n, el, ctx, kind, block):
        self.id = pid
        self.f = f          # Func
        self.n = n          # node dict or None
        self.el = el        # raw non-statement element (dict) or None
        self.ctx = ctx      # Ctx (inlining context)
        self.succ = []      # [(Point, label)] label = None | (cond node idx, Func, polarity) | ('case', v)
        self.pred = []
        self.kind = kind    # 'stmt' | 'el' | 'nop' | 'entry' | 'exit'
        self.block = block

    def __repr__(self):
        if self.n is not None:
            return '<P%d %s %s:%s>' % (self.id, self.n['k'], self.f.name, self.n.get('l'))
        return '<P%d %s %s>' % (self.id, self.kind, self.f.name)

    @property
    def line(self):
        if self.n is not None:
            return self.n.get('l')
        return None


class Ctx:
    """Inlining context: which call (in which parent context) this copy of a function body serves."""
    __slots__ = ('parent', 'call', 'caller', 'f', 'depth', 'lambda_of')

    def __init__(self, parent, call, caller, f, depth, lambda_of=None):
        self.parent = parent    # Ctx or None
        self.call = call        # call node dict in caller (None at root)
        self.caller = caller    # Func of the caller
        self.f = f              # Func this context executes
        self.depth = depth
        self.lambda_of = lambda_of  # for synchronously-invoked lambdas: the lambda node

    def stack(self):
        s = []
        c = self
        while c is not None:
            s.append(c.f.key)
            c = c.parent
        return s


NOT_SYNC_CALLEES = ('std::thread::thread', 'std::async', 'std::function', 'std::call_once')


class Graph:
    """Point graph of a function, optionally with callees spliced in.

    inline(caller_func, call_node, callee_func, depth) -> bool decides what is spliced.
    Lambdas passed directly as call arguments are spliced as "invoked zero or more times at the call"
    unless the callee is a thread/async constructor (sync_lambdas=True)."""

    def __init__(self, prog, func, inline=None, max_depth=3, sync_lambdas=True):
        self.prog = prog
        self.func = func
        self.points = []
        self.inline = inline
        self.max_depth = max_depth
        self.sync_lambdas = sync_lambdas
        self.root_ctx = Ctx(None, None, None, func, 0)
        self.ctx_bounds = {}    # id(ctx) -> (entry point, exit point)
        self.point_of = {}      # (id(ctx), node index) -> Point
        self.ctxs = [self.root_ctx]
        self.entry, self.exit = self._build(func, self.root_ctx)
        for p in self.points:
            for (s, lab) in p.succ:
                s.pred.append((p, lab))
        self._dom = None
        self._pdom = None

    # ------------------------------------------------------------------ construction
    def _new(self, f, n, el, ctx, kind, block):
        p = Point(len(self.points), f, n, el, ctx, kind, block)
        self.points.append(p)
        if n is not None:
            self.point_of[(id(ctx), n['i'])] = p
        return p

    def _lambda_args(self, f, call):
        """lambda nodes that are (possibly wrapped) direct arguments of the call"""
        out = []
        for a in call.get('args', []):
            if a is None or a < 0:
                continue
            n = f.nodes[a]
            hops = 0
            while n['k'] in ('construct', 'cast') and hops < 4:
                sub = None
                if n['k'] == 'construct' and len(n.get('args', [])) == 1:
                    sub = n['args'][0]
                elif n['k'] == 'cast':
                    sub = n.get('e')
                if sub is None or sub < 0:
                    break
                n = f.nodes[sub]
                hops += 1
            if n['k'] == 'ref' and n.get('sk') == 'local':
                # a closure kept in a local and handed over later (auto pred = [..]{..}; cv.wait_for(lk, t, pred))
                for m in f.nodes:
                    if m['k'] == 'declstmt':
                        for d in m['decls']:
                            if d['id'] == n.get('id') and 'init' in d:
                                x = f.nodes[d['init']]
                                h = 0
                                while x['k'] in ('construct', 'cast') and h < 4:
                                    sub = x['args'][0] if x['k'] == 'construct' and len(x.get('args', [])) == 1 else x.get('e')
                                    if sub is None or sub < 0:
                                        break
                                    x = f.nodes[sub]
                                    h += 1
                                if x['k'] == 'lambda':
                                    n = x
            if n['k'] == 'lambda':
                out.append(n)
        return out

    def _build(self, f, ctx):
        first = {}
        last = {}
        for b in f.blocks:
            pts = []
            for e in b['el']:
                if isinstance(e, int):
                    n = f.nodes[e]
                    pre_entry = None
                    # splice callee bodies / lambda bodies before the call point
                    if n['k'] in ('call', 'construct'):
                        chain = self._splice(f, n, ctx)
                        if chain:
                            pre_entry = chain
                    p = self._new(f, n, None, ctx, 'stmt', b['id'])
                    if pre_entry:
                        for (pe, px, optional) in pre_entry:
                            pts.append(('splice', pe, px, optional))
                    pts.append(('pt', p))
                else:
                    p = self._new(f, None, e, ctx, 'el', b['id'])
                    pts.append(('pt', p))
            if not pts:
                kind = 'nop'
                if b['id'] == f.entry:
                    kind = 'entry'
                elif b['id'] == f.exit:
                    kind = 'exit'
                pts.append(('pt', self._new(f, None, None, ctx, kind, b['id'])))
            # chain them
            head = None
            tails = []  # points whose successor is "the next thing"
            for item in pts:
                if item[0] == 'pt':
                    p = item[1]
                    if head is None:
                        head = p
                    for t in tails:
                        t.succ.append((p, None))
                    tails = [p]
                else:
                    _, pe, px, optional = item
                    if head is None:
                        # need a nop head so that the block has a single first point
                        head = self._new(f, None, None, ctx, 'nop', b['id'])
                        tails = [head]
                    for t in tails:
                        t.succ.append((pe, None))
                    if optional:
                        # zero-or-more executions: exit loops back to entry, and may be skipped
                        px.succ.append((pe, None))
                        tails = tails + [px]
                    else:
                        tails = [px]
            first[b['id']] = head
            last[b['id']] = tails
        # block edges
        for b in f.blocks:
            succ = b.get('succ', [])
            if b.get('nr'):
                succ = []   # ends in a noreturn call (assert failure, abort): the path dies here
            term = b.get('t')
            tails = last[b['id']]
            cond = term.get('cnd') if term else None
            # the condition of `if (a && b)` is reported as the whole `a && b`; in the block that ends the
            # evaluation its value is the value of the operand evaluated last (the right-most one)
            # This is only sound when that operand is evaluated in this very block; a join block that merges the
            # short-circuit edge with the evaluated edge (do { } while (a && b)) keeps the whole expression.
            hops = 0
            own_elems = {e for e in b['el'] if isinstance(e, int)}
            while cond is not None and hops < 8:
                cn = f.nodes[cond]
                if cn['k'] == 'binop' and cn['op'] in ('&&', '||') and cn['rhs'] in own_elems:
                    cond = cn['rhs']
                    hops += 1
                else:
                    break
            two_way = term is not None and cond is not None and len(succ) == 2 and term['k'] != 'SwitchStmt'
            for i, s in enumerate(succ):
                if s is None:
                    continue
                lab = None
                if two_way:
                    lab = (cond, f, i == 0)
                    # what the outcome implies: `ok` (a boolean local initialised once from `A && B`) being true implies A and B;
                    # `!(A || B)` being true implies !A and !B.  The edge is expanded into a chain of edges, one per implied atom,
                    # so that every obligation phrased over edges sees the atoms whatever the form of the guard is.
                    atoms = self._implied_atoms(f, cond, i == 0)
                    if len(atoms) > 1:
                        for t in tails:
                            cur = t
                            for (ai, apol) in atoms[:-1]:
                                nxt = self._new(f, None, None, ctx, 'nop', b['id'])
                                cur.succ.append((nxt, (ai, f, apol)))
                                cur = nxt
                            cur.succ.append((first[s], (atoms[-1][0], f, atoms[-1][1])))
                        continue
                elif term is not None and term['k'] == 'SwitchStmt':
                    sb = f.block(s)
                    l = sb.get('label')
                    if l:
                        lab = ('case', l.get('v'), l.get('qn'), l.get('k'), cond)
                    else:
                        lab = ('case', None, None, 'fallthrough-or-exit', cond)
                for t in tails:
                    t.succ.append((first[s], lab))
        self.ctx_bounds[id(ctx)] = (first[f.entry], first[f.exit])
        return first[f.entry], first[f.exit]

    def _implied_atoms(self, f, cond, truth, depth=0):
        """[(node idx, polarity)]: atoms implied by `cond` evaluating to `truth` (the condition itself first)"""
        out = [(cond, truth)]
        if depth > 6:
            return out
        n = f.nodes[cond]
        hops = 0
        while n['k'] == 'cast' and hops < 6:
            n = f.nodes[n['e']]
            hops += 1
        if n['k'] == 'unop' and n['op'] == '!':
            sub = self._implied_atoms(f, n['e'], not truth, depth + 1)
            return out + [a for a in sub if a not in out]
        if n['k'] == 'binop' and ((n['op'] == '&&' and truth) or (n['op'] == '||' and not truth)):
            for side in (n['lhs'], n['rhs']):
                for a in self._implied_atoms(f, side, truth, depth + 1):
                    if a not in out:
                        out.append(a)
            return out
        if n['k'] == 'ref' and n.get('sk') == 'local' and (n.get('t') or '').replace('const ', '') == 'bool':
            init = self._once_bool_init(f, n.get('id'))
            if init is not None:
                for a in self._implied_atoms(f, init, truth, depth + 1):
                    if a not in out:
                        out.append(a)
        return out

    def _once_bool_init(self, f, vid):
        """initialiser of a boolean local that is initialised at its declaration and never assigned again, else None"""
        cache = self.__dict__.setdefault('_once_cache', {}).setdefault(id(f), {})
        if vid in cache:
            return cache[vid]
        inits = [d.get('init') for m in f.nodes if m['k'] == 'declstmt' for d in m['decls'] if d['id'] == vid]
        r = None
        if len(inits) == 1 and inits[0] is not None and inits[0] >= 0:
            from .expr import defs_in_node
            written = any(v == vid for m in f.nodes if m['k'] != 'declstmt' for (v, st, vx) in defs_in_node(f, m)) or \
                any(m['k'] == 'unop' and m['op'] == '&' and f.nodes[m['e']]['k'] == 'ref' and f.nodes[m['e']].get('id') == vid for m in f.nodes)
            if not written:
                r = inits[0]
        cache[vid] = r
        return r

    def _splice(self, f, call, ctx):
        """returns list of (entry, exit, optional) sub-graphs to run before the call point"""
        out = []
        prog = self.prog
        ck = call.get('ck')
        callee = prog.funcs.get(ck) if ck else None
        stack = ctx.stack()
        inlined = False
        if (callee is not None and self.inline is not None and ctx.depth < self.max_depth and callee.key not in stack
                and callee.blocks and self.inline(f, call, callee, ctx.depth)):
            sub = Ctx(ctx, call, f, callee, ctx.depth + 1)
            self.ctxs.append(sub)
            e, x = self._build(callee, sub)
            out.append((e, x, False))
            inlined = True
        if self.sync_lambdas and not inlined and ctx.depth < self.max_depth:
            c = strip_targs(call.get('c', '') or '')
            if not any(c.startswith(x) for x in NOT_SYNC_CALLEES):
                for lam in self._lambda_args(f, call):
                    lf = prog.funcs.get(lam.get('fn'))
                    if lf is not None and lf.key not in stack and lf.blocks:
                        sub = Ctx(ctx, call, f, lf, ctx.depth + 1, lambda_of=lam)
                        self.ctxs.append(sub)
                        e, x = self._build(lf, sub)
                        out.append((e, x, True))
        return out

    # ------------------------------------------------------------------ queries
    def stmts(self, pred=None):
        return [p for p in self.points if p.n is not None and (pred is None or pred(p))]

    def calls(self, suffix=None, pred=None):
        out = []
        for p in self.points:
            n = p.n
            if n is None or n['k'] not in ('call', 'construct'):
                continue
            if suffix is not None:
                if isinstance(suffix, (tuple, list)):
                    if not any(qmatch(n.get('c', ''), s) for s in suffix):
                        continue
                elif not qmatch(n.get('c', ''), suffix):
                    continue
            if pred and not pred(p):
                continue
            out.append(p)
        return out

    def returns(self, root_only=True):
        return [p for p in self.points if p.n is not None and p.n['k'] == 'return' and
                (not root_only or p.ctx is self.root_ctx)]

    def reachable_from(self, src, avoid=(), avoid_edges=None, forward=True):
        """set of point ids reachable from src (list of points), never entering points in avoid and never
        taking edges for which avoid_edges(p, q, label) is true."""
        avoid_ids = {a.id for a in avoid}
        seen = set()
        dq = deque()
        for s in (src if isinstance(src, (list, tuple, set)) else [src]):
            if s.id not in avoid_ids:
                seen.add(s.id)
                dq.append(s)
        while dq:
            p = dq.popleft()
            edges = p.succ if forward else p.pred
            for (q, lab) in edges:
                if q.id in seen or q.id in avoid_ids:
                    continue
                if avoid_edges is not None:
                    a, b = (p, q) if forward else (q, p)
                    if avoid_edges(a, b, lab):
                        continue
                seen.add(q.id)
                dq.append(q)
        return seen

    def path(self, src, dst, avoid=(), avoid_edges=None):
        """a shortest path (list of points) from src to dst or None"""
        avoid_ids = {a.id for a in avoid}
        prev = {src.id: None}
        dq = deque([src])
        while dq:
            p = dq.popleft()
            if p.id == dst.id:
                out = []
                while p is not None:
                    out.append(p)
                    p = prev[p.id]
                return list(reversed(out))
            for (q, lab) in p.succ:
                if q.id in prev or q.id in avoid_ids:
                    continue
                if avoid_edges is not None and avoid_edges(p, q, lab):
                    continue
                prev[q.id] = p
                dq.append(q)
        return None

    def must_pass(self, target, through, src=None):
        """every path from src (default entry) to target passes through one of `through` (points)."""
        src = src or self.entry
        if target in through:
            return True
        r = self.reachable_from(src, avoid=through)
        return target.id not in r

    def must_pass_edge(self, target, edge_pred, src=None):
        """every path from src to target takes an edge satisfying edge_pred(p,q,label)"""
        src = src or self.entry
        r = self.reachable_from(src, avoid_edges=edge_pred)
        return target.id not in r

    def must_reach(self, src, through, stop=None):
        """every path from src to the function exit (or to a point in `stop`) passes through one of
        `through`."""
        if src in through:
            return True
        targets = [self.exit] + list(stop or [])
        r = self.reachable_from(src, avoid=through)
        return not any(t.id in r for t in targets)

    def unit_ctx(self, ctx, anchors):
        """The nearest context (ctx itself or an ancestor) whose inlined body - itself or its descendants - contains one of the
        anchor points. Used to pair events that belong to the same inlined copy of a procedure (e.g. the Consume and the Export of
        one export cycle) even when one of them was moved into a private helper."""
        def contains(c, p):
            x = p.ctx
            while x is not None:
                if x is c:
                    return True
                x = x.parent
            return False
        c = ctx
        while c is not None:
            if any(contains(c, a) for a in anchors):
                return c
            c = c.parent
        return self.root_ctx

    def canon_var(self, var_id):
        """ids of the variables a by-reference parameter of an inlined helper is bound to in its callers (transitively); the id
        itself when it is not such a parameter"""
        out = set()
        work = [var_id]
        seen = set()
        while work:
            v = work.pop()
            if v in seen:
                continue
            seen.add(v)
            bound = False
            for c in self.ctxs:
                if c.call is None or c.lambda_of:
                    continue
                for pi, prm in enumerate(c.f.params):
                    if prm['id'] == v:
                        args = c.call.get('args', [])
                        if pi < len(args) and args[pi] is not None and args[pi] >= 0:
                            n = c.caller.nodes[args[pi]]
                            hops = 0
                            while hops < 6 and n['k'] in ('cast', 'unop', 'call', 'construct'):
                                nxt = n.get('e') if n['k'] in ('cast', 'unop') else ((n.get('args') or [None])[0] if len(n.get('args') or []) == 1 else None)
                                if nxt is None or nxt < 0:
                                    break
                                n = c.caller.nodes[nxt]
                                hops += 1
                            if n['k'] == 'ref' and 'id' in n:
                                work.append(n['id'])
                                bound = True
            if not bound:
                out.add(v)
        return out

    def describe_path(self, pts, limit=12):
        out = []
        lastl = None
        for p in pts:
            l = p.line
            if l is None or (p.f.name, l) == lastl:
                continue
            lastl = (p.f.name, l)
            out.append('%s:%d' % (p.f.name, l))
        if len(out) > limit:
            out = out[:limit // 2] + ['...'] + out[-limit // 2:]
        return ' -> '.join(out)

    # ------------------------------------------------------------------ generic forward dataflow
    def forward(self, init, transfer, meet, entry_state=None, edge_transfer=None, skip_edge=None):
        """Worklist forward dataflow. States are frozensets (or any hashable comparable value).
        transfer(point, in_state) -> out_state ; meet(list of states) -> state.
        edge_transfer(p, q, label, state) -> state (optional).
        Returns (IN, OUT) dicts by point id.  `init` is the optimistic initial OUT (None = unvisited)."""
        IN = {}
        OUT = {}
        entry = self.entry
        IN[entry.id] = entry_state if entry_state is not None else init
        OUT[entry.id] = transfer(entry, IN[entry.id])
        wl = deque([q for (q, _) in entry.succ])
        inwl = {q.id for q in wl}
        iters = 0
        while wl:
            p = wl.popleft()
            inwl.discard(p.id)
            iters += 1
            if iters > 400000:
                raise RuntimeError('dataflow did not converge')
            ins = []
            for (q, lab) in p.pred:
                if skip_edge is not None and skip_edge(q, p, lab):
                    continue
                if q.id in OUT:
                    st = OUT[q.id]
                    if edge_transfer is not None:
                        st = edge_transfer(q, p, lab, st)
                    ins.append(st)
            if p is entry:
                ins.append(IN[entry.id])
            if not ins:
                continue
            i = meet(ins)
            o = transfer(p, i)
            if p.id in OUT and OUT[p.id] == o and IN.get(p.id) == i:
                continue
            IN[p.id] = i
            OUT[p.id] = o
            for (s, _) in p.succ:
                if s.id not in inwl:
                    inwl.add(s.id)
                    wl.append(s)
        return IN, OUT
