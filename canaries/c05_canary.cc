// Canaries for C05 (parsed, never executed).
#include "opentelemetry/context/runtime_context.h"
#include "opentelemetry/sdk/trace/sampler.h"
#include "opentelemetry/trace/context.h"
#include "opentelemetry/trace/span_context.h"
#include "opentelemetry/trace/span_startoptions.h"
#include "opentelemetry/trace/trace_flags.h"
#include "opentelemetry/trace/tracer.h"

namespace canary
{
namespace c05
{
namespace trace = opentelemetry::trace;
namespace nostd = opentelemetry::nostd;
class BadTracer
{
public:
  trace::SpanContext StartSpan(nostd::string_view name,
                               const opentelemetry::common::KeyValueIterable &attributes,
                               const trace::SpanContextKeyValueIterable &links,
                               const trace::StartSpanOptions &options) noexcept
  {
    trace::SpanContext parent_context = trace::Tracer::GetCurrentSpan()->GetContext();
    if (nostd::holds_alternative<opentelemetry::context::Context>(options.parent))
    {
      auto context      = nostd::get<opentelemetry::context::Context>(options.parent);
      auto span_context = trace::GetSpan(context)->GetContext();
      if (span_context.IsValid())
      {
        parent_context = span_context;
      }
      else
      {
        parent_context = trace::SpanContext{false, false};  // root marker ignored
      }
    }
    else if (nostd::holds_alternative<trace::SpanContext>(options.parent))
    {
      auto span_context = nostd::get<trace::SpanContext>(options.parent);
      parent_context    = span_context;  // validity not checked
    }
    uint8_t flags = 0;
    if (parent_context.IsValid())
    {
      flags = parent_context.trace_flags().flags();
    }
    auto sampling_result = sampler_->ShouldSample(parent_context, parent_context.trace_id(), name,
                                                  options.kind, attributes, links);
    if (sampling_result.IsSampled())
    {
      flags |= trace::TraceFlags::kIsSampled;
    }
    // bit not cleared on the other side, no mask
    trace::TraceFlags trace_flags(flags);
    return trace::SpanContext(parent_context.trace_id(), parent_context.span_id(), trace_flags, false);
  }

private:
  opentelemetry::sdk::trace::Sampler *sampler_;
};
}  // namespace c05
}  // namespace canary
