// Canaries for C17 (parsed, never executed).
#include <memory>
#include <mutex>
#include <vector>
#include "opentelemetry/metrics/async_instruments.h"
#include "opentelemetry/metrics/observer_result.h"
namespace canary
{
namespace c17
{
struct Record
{
  opentelemetry::metrics::ObservableCallbackPtr callback;
  void *state;
};
class BadRegistry
{
public:
  void Observe(opentelemetry::metrics::ObserverResult result)
  {
    std::vector<Record> snapshot;
    {
      std::lock_guard<std::mutex> lock_guard{callbacks_m_};
      for (auto &r : callbacks_)
        snapshot.push_back(*r);
    }
    for (auto &record : snapshot)
    {
      record.callback(result, record.state);  // outside the lock, from a snapshot
    }
  }
  void Remove()
  {
    callbacks_.clear();  // no lock
  }

private:
  std::vector<std::unique_ptr<Record>> callbacks_;
  std::mutex callbacks_m_;
};
class ObservableInstrument
{
public:
  ~ObservableInstrument() {}
};
}  // namespace c17
}  // namespace canary
