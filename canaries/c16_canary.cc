// Canaries for C16 (parsed, never executed).
#include "opentelemetry/trace/span_context.h"
#include "opentelemetry/trace/trace_flags.h"
namespace canary
{
namespace c16
{
inline char BadInject(const opentelemetry::trace::SpanContext &span_context)
{
  char trace_flags[2];
  opentelemetry::trace::TraceFlags(span_context.trace_flags()).ToLowerBase16(trace_flags);
  return trace_flags[1];  // low nibble of the whole flags byte
}
}  // namespace c16
}  // namespace canary
