// Canaries for C03: tiny *bad* shapes that every run must flag (parsed, never executed).
#include <atomic>
#include <chrono>
#include <memory>
#include <mutex>
#include <thread>
#include <vector>
#include "opentelemetry/common/spin_lock_mutex.h"
#include "opentelemetry/sdk/common/circular_buffer.h"
#include "opentelemetry/sdk/trace/batch_span_processor_options.h"
#include "opentelemetry/sdk/trace/exporter.h"
#include "opentelemetry/sdk/trace/recordable.h"

namespace canary
{
namespace c03
{
using opentelemetry::sdk::trace::Recordable;
using opentelemetry::sdk::trace::SpanExporter;
namespace nostd = opentelemetry::nostd;

class SimpleNoLock
{
public:
  void OnEnd(std::unique_ptr<Recordable> &&span) noexcept
  {
    nostd::span<std::unique_ptr<Recordable>> batch(&span, 1);
    {
      const std::lock_guard<opentelemetry::common::SpinLockMutex> locked(lock_);
    }
    exporter_->Export(batch);  // guard scope already closed
  }

private:
  std::unique_ptr<SpanExporter> exporter_;
  opentelemetry::common::SpinLockMutex lock_;
};

class BatchBad
{
public:
  BatchBad(std::unique_ptr<SpanExporter> &&e, const opentelemetry::sdk::trace::BatchSpanProcessorOptions &options)
      : exporter_(std::move(e)), max_export_batch_size_(options.max_export_batch_size), buffer_(options.max_queue_size)
  {
    worker_ = std::thread(&BatchBad::Work, this);
  }
  bool ForceFlush(std::chrono::microseconds) noexcept
  {
    pending_.fetch_add(1);
    Cycle();  // exporter driven from the caller's thread
    return true;
  }
  bool Shutdown(std::chrono::microseconds) noexcept
  {
    done_.exchange(true);
    return true;
  }

private:
  void Work()
  {
    while (!done_.load())
      Cycle();
  }
  void Cycle()
  {
    std::vector<std::unique_ptr<Recordable>> arr;
    size_t n = buffer_.size();  // unbounded
    if (n == 0)
      return;
    buffer_.Consume(n, [&](opentelemetry::sdk::common::CircularBufferRange<
                           opentelemetry::sdk::common::AtomicUniquePtr<Recordable>> range) noexcept {
      range.ForEach([&](opentelemetry::sdk::common::AtomicUniquePtr<Recordable> &ptr) {
        std::unique_ptr<Recordable> p;
        ptr.Swap(p);
        arr.push_back(std::move(p));
        return true;
      });
    });
    exporter_->Export(nostd::span<std::unique_ptr<Recordable>>(arr.data(), arr.size()));
  }
  std::unique_ptr<SpanExporter> exporter_;
  size_t max_export_batch_size_;
  opentelemetry::sdk::common::CircularBuffer<Recordable> buffer_;
  std::atomic<uint64_t> pending_{0};
  std::atomic<bool> done_{false};
  std::thread worker_;
};

class BatchBad2
{
public:
  BatchBad2(std::unique_ptr<SpanExporter> &&e, const opentelemetry::sdk::trace::BatchSpanProcessorOptions &options)
      : exporter_(std::move(e)), max_export_batch_size_(options.max_export_batch_size), buffer_(options.max_queue_size)
  {
    worker_ = std::thread(&BatchBad2::Work, this);
  }
  bool ForceFlush(std::chrono::microseconds) noexcept
  {
    pending_.fetch_add(1);
    return true;
  }
  bool Shutdown(std::chrono::microseconds) noexcept
  {
    done_.exchange(true);
    return true;
  }

private:
  void Work()
  {
    while (!done_.load())
    {
      std::vector<std::unique_ptr<Recordable>> arr;
      size_t n = buffer_.size() >= max_export_batch_size_ ? max_export_batch_size_ : buffer_.size();
      buffer_.Consume(n, [&](opentelemetry::sdk::common::CircularBufferRange<
                             opentelemetry::sdk::common::AtomicUniquePtr<Recordable>> range) noexcept {
        range.ForEach([&](opentelemetry::sdk::common::AtomicUniquePtr<Recordable> &ptr) {
          std::unique_ptr<Recordable> p;
          ptr.Swap(p);
          arr.push_back(std::move(p));
          return true;
        });
      });
      // empty batches are exported too
      exporter_->Export(nostd::span<std::unique_ptr<Recordable>>(arr.data(), arr.size()));
    }
  }
  std::unique_ptr<SpanExporter> exporter_;
  size_t max_export_batch_size_;
  opentelemetry::sdk::common::CircularBuffer<Recordable> buffer_;
  std::atomic<uint64_t> pending_{0};
  std::atomic<bool> done_{false};
  std::thread worker_;
};

}  // namespace c03
}  // namespace canary
