// Canaries for C07 (parsed, never executed).
#include <algorithm>
#include <limits>
#include <mutex>
#include "opentelemetry/common/spin_lock_mutex.h"
#include "opentelemetry/sdk/metrics/aggregation/aggregation_config.h"
#include "opentelemetry/sdk/metrics/aggregation/histogram_aggregation.h"
#include "opentelemetry/sdk/metrics/data/point_data.h"
namespace canary
{
namespace c07
{
using namespace opentelemetry::sdk::metrics;
class BadHistogram
{
public:
  explicit BadHistogram(const AggregationConfig *)
  {
    point_data_.min_ = (std::numeric_limits<double>::max)();
    point_data_.max_ = (std::numeric_limits<double>::min)();  // smallest positive, not the bottom
  }
  void Aggregate(double value) noexcept
  {
    point_data_.count_ += 1;  // no lock
    if (!record_min_max_)
      return;  // buckets skipped
    point_data_.sum_ = opentelemetry::nostd::get<double>(point_data_.sum_) + value;
    point_data_.min_ = (std::min)(opentelemetry::nostd::get<double>(point_data_.min_), value);
    point_data_.max_ = (std::max)(opentelemetry::nostd::get<double>(point_data_.max_), value);
    size_t index     = BucketBinarySearch(value, point_data_.boundaries_);
    point_data_.counts_[index] += 1;
  }

private:
  opentelemetry::common::SpinLockMutex lock_;
  HistogramPointData point_data_;
  bool record_min_max_ = true;
};
}  // namespace c07
}  // namespace canary
