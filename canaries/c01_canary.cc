// Canaries for C01: bad shapes that every run must flag (parsed, never executed).
#include <atomic>
#include <chrono>
#include <memory>
#include <mutex>
#include <thread>
#include <vector>
#include "opentelemetry/sdk/common/circular_buffer.h"
#include "opentelemetry/sdk/trace/batch_span_processor_options.h"
#include "opentelemetry/sdk/trace/exporter.h"
#include "opentelemetry/sdk/trace/recordable.h"

namespace canary
{
namespace c01
{
using opentelemetry::sdk::trace::Recordable;
using opentelemetry::sdk::trace::SpanExporter;
namespace nostd = opentelemetry::nostd;

class BadBatch
{
public:
  BadBatch(std::unique_ptr<SpanExporter> &&e, const opentelemetry::sdk::trace::BatchSpanProcessorOptions &options)
      : exporter_(std::move(e)), max_export_batch_size_(options.max_export_batch_size), buffer_(options.max_queue_size)
  {
    worker_ = std::thread(&BadBatch::Work, this);
  }
  void OnEnd(std::unique_ptr<Recordable> &&span) noexcept
  {
    std::lock_guard<std::mutex> lk(m_);  // producer takes the worker's mutex
    if (buffer_.size() > 8)
      return;  // silent drop although the queue has room
    if (!buffer_.Add(std::move(span)))
    {
      buffer_.Add(std::move(span));  // second enqueue
    }
  }
  bool ForceFlush(std::chrono::microseconds) noexcept
  {
    pending_.fetch_add(1);
    return true;
  }
  bool Shutdown(std::chrono::microseconds) noexcept
  {
    done_.exchange(true);
    return true;
  }

private:
  void Work()
  {
    while (!done_.load())
    {
      std::vector<std::unique_ptr<Recordable>> arr, other;
      size_t n = last_count_;  // stale, unrelated count
      buffer_.Consume(n, [&](opentelemetry::sdk::common::CircularBufferRange<
                             opentelemetry::sdk::common::AtomicUniquePtr<Recordable>> range) noexcept {
        range.ForEach([&](opentelemetry::sdk::common::AtomicUniquePtr<Recordable> &ptr) {
          if (other.size() > 3)
            return false;  // stops early, slot left occupied
          std::unique_ptr<Recordable> p;
          ptr.Swap(p);
          other.push_back(std::move(p));  // not the exported container
          return true;
        });
      });
      if (n)
        exporter_->Export(nostd::span<std::unique_ptr<Recordable>>(arr.data(), arr.size()));
    }
  }
  std::unique_ptr<SpanExporter> exporter_;
  size_t max_export_batch_size_;
  size_t last_count_ = 0;
  opentelemetry::sdk::common::CircularBuffer<Recordable> buffer_;
  std::atomic<uint64_t> pending_{0};
  std::atomic<bool> done_{false};
  std::mutex m_;
  std::thread worker_;
};

}  // namespace c01
}  // namespace canary
