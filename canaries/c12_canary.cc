// Canaries for C12 (parsed, never executed).
#include <cmath>
#include <cstdint>
#include <ctime>
#include "opentelemetry/sdk/trace/sampler.h"
#include "opentelemetry/sdk/trace/samplers/always_off.h"
#include "opentelemetry/sdk/trace/samplers/always_on.h"
#include "opentelemetry/trace/span_context.h"

namespace canary
{
namespace c12
{
using namespace opentelemetry::sdk::trace;
namespace trace_api = opentelemetry::trace;
namespace nostd     = opentelemetry::nostd;

inline uint64_t BadThreshold(double ratio) noexcept
{
  const double product = UINT32_MAX * ratio;
  double hi_bits, lo_bits = ldexp(modf(product, &hi_bits), 32) + product;
  return (static_cast<uint64_t>(hi_bits) << 32) | static_cast<uint64_t>(lo_bits);  // carry lost
}

class BadRatioSampler : public Sampler
{
public:
  SamplingResult ShouldSample(const trace_api::SpanContext &parent_context,
                              trace_api::TraceId trace_id,
                              nostd::string_view name,
                              trace_api::SpanKind,
                              const opentelemetry::common::KeyValueIterable &,
                              const trace_api::SpanContextKeyValueIterable &) noexcept override
  {
    if (parent_context.IsSampled() || name.size() > threshold_)  // depends on parent and name
      return {Decision::RECORD_AND_SAMPLE, nullptr, {}};
    (void)trace_id;
    return {Decision::DROP, nullptr, {}};
  }
  nostd::string_view GetDescription() const noexcept override { return "bad"; }

private:
  uint64_t threshold_ = 0;
};

class BadParentSampler : public Sampler
{
public:
  SamplingResult ShouldSample(const trace_api::SpanContext &parent_context,
                              trace_api::TraceId trace_id,
                              nostd::string_view name,
                              trace_api::SpanKind span_kind,
                              const opentelemetry::common::KeyValueIterable &attributes,
                              const trace_api::SpanContextKeyValueIterable &links) noexcept override
  {
    if (!parent_context.IsValid() || !parent_context.IsSampled())  // delegate also for unsampled valid parents
    {
      return delegate_->ShouldSample(parent_context, trace_id, name, span_kind, attributes, links);
    }
    if (parent_context.trace_flags() == trace_api::TraceFlags{trace_api::TraceFlags::kIsSampled})
    {
      return {Decision::RECORD_AND_SAMPLE, nullptr, parent_context.trace_state()};
    }
    return {Decision::DROP, nullptr, {}};
  }
  nostd::string_view GetDescription() const noexcept override { return "bad"; }

private:
  Sampler *delegate_;
};
}  // namespace c12
}  // namespace canary
