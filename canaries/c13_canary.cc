// Canaries for C13 (parsed, never executed).
namespace canary
{
namespace c13
{
inline int Set(int *record, int value)
{
  *record = value;
  return 0;
}
template <class... T>
inline void Ignore(T...)
{}
inline void BadEmit(int *record, int a, int b)
{
  Ignore(Set(record, a), Set(record, b));  // sibling arguments: order unspecified
}
}  // namespace c13
}  // namespace canary
