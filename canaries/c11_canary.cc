// Canaries for C11 (parsed, never executed).
#include <atomic>
#include <memory>
#include "opentelemetry/nostd/span.h"
#include "opentelemetry/sdk/common/atomic_unique_ptr.h"
#include "opentelemetry/sdk/common/circular_buffer_range.h"
#include "opentelemetry/sdk/trace/recordable.h"

namespace canary
{
namespace c11
{
using opentelemetry::sdk::common::AtomicUniquePtr;
template <class T>
class BadBuffer
{
public:
  explicit BadBuffer(size_t max_size) : data_{new AtomicUniquePtr<T>[max_size]}, capacity_{max_size} {}
  bool Add(std::unique_ptr<T> &ptr) noexcept
  {
    while (true)
    {
      uint64_t tail = tail_;
      uint64_t head = head_;
      if (head - tail > capacity_ - 1)  // off by one
      {
        return false;
      }
      uint64_t head_index = head % capacity_;
      if (data_[head_index].SwapIfNull(ptr))
      {
        auto new_head      = head + 1;
        auto expected_head = head;
        if (head_.compare_exchange_weak(expected_head, new_head, std::memory_order_relaxed, std::memory_order_relaxed))
        {
          return true;
        }
        // undo missing: retry with the element still in the slot
        if (new_head > 100)
          return false;  // failure reported while the slot owns the element
      }
    }
  }
  template <class Callback>
  void Consume(size_t n, Callback callback) noexcept
  {
    callback(n);
    if (n > 1)
      tail_ += n - 1;
  }
  size_t size() const noexcept { return head_ - tail_ + 1; }
  // geometry canary (C11.R5): the wrapped part is handed out before the part at the tail
  opentelemetry::sdk::common::CircularBufferRange<AtomicUniquePtr<T>> PeekFirst() noexcept
  {
    uint64_t tail_index = tail_ % capacity_;
    uint64_t head_index = head_ % capacity_;
    auto data           = data_.get();
    if (tail_index <= head_index)
    {
      return opentelemetry::sdk::common::CircularBufferRange<AtomicUniquePtr<T>>{
          opentelemetry::nostd::span<AtomicUniquePtr<T>>{data + tail_index, static_cast<std::size_t>(head_index - tail_index)}};
    }
    return opentelemetry::sdk::common::CircularBufferRange<AtomicUniquePtr<T>>{
        opentelemetry::nostd::span<AtomicUniquePtr<T>>{data, static_cast<std::size_t>(head_index)}};
  }

private:
  std::unique_ptr<AtomicUniquePtr<T>[]> data_;
  size_t capacity_;
  std::atomic<uint64_t> head_{0};
  std::atomic<uint64_t> tail_{0};
};
template class BadBuffer<opentelemetry::sdk::trace::Recordable>;

class BadSpin
{
public:
  void lock() noexcept
  {
    for (int i = 0; i < 100; ++i)
    {
      if (!flag_.exchange(true, std::memory_order_acquire))
        return;
    }
    // gives up and returns anyway
  }
  void unlock() noexcept { flag_.store(false, std::memory_order_relaxed); }

private:
  std::atomic<bool> flag_{false};
};
}  // namespace c11
}  // namespace canary
