// Canaries for C10 (parsed, never executed).
#include "opentelemetry/context/context.h"
#include "opentelemetry/context/runtime_context.h"

namespace canary
{
namespace c10
{
using opentelemetry::context::Context;
using opentelemetry::context::ContextValue;
// moves from the caller's context
inline Context SetValueMoving(opentelemetry::nostd::string_view key, const ContextValue &value, Context *context) noexcept
{
  Context temp_context;
  temp_context = std::move(*context);
  return temp_context.SetValue(key, value);
}
// assigns through a parameter
inline void Clobber(Context &target, const Context &other) noexcept
{
  target = other;
}
}  // namespace c10
}  // namespace canary
