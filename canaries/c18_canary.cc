// Canaries for C18 (parsed, never executed).
#include <cstdint>
#include <cstdlib>
namespace canary
{
namespace c18
{
inline bool BadUint(const char *raw, std::uint32_t &value)
{
  char *actual_end = nullptr;
  value            = static_cast<std::uint32_t>(std::strtoull(raw, &actual_end, 10));  // assigned before validation
  if (*actual_end != '\0')
  {
    return false;  // the partial value survives
  }
  return true;
}
}  // namespace c18
}  // namespace canary
