// Canaries for C20 (parsed, never executed).
#include <memory>
namespace canary
{
namespace c20
{
template <class T>
class bad_ptr
{
public:
  bad_ptr &operator=(const bad_ptr &other) noexcept
  {
    if (get() != other.get())  // pointee comparison, not identity
    {
      ptr_.~shared_ptr<T>();  // released before the source is taken
      new (&ptr_) std::shared_ptr<T>(other.ptr_);
    }
    return *this;
  }
  bad_ptr &operator=(bad_ptr &&other) noexcept
  {
    ptr_.~shared_ptr<T>();
    new (&ptr_) std::shared_ptr<T>(std::move(other.ptr_));
    return *this;
  }
  T *get() const noexcept { return ptr_.get(); }

private:
  std::shared_ptr<T> ptr_;
};
template class bad_ptr<int>;
}  // namespace c20
}  // namespace canary
