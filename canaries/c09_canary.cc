// Canaries for C09 (parsed, never executed).
#include <cstddef>
#include <cstdint>
namespace canary
{
namespace c09
{
constexpr int8_t kTable[256] = {0};
inline int8_t BadLookup(char c)
{
  return kTable[static_cast<size_t>(c)];  // signed char keeps its sign
}
// a const static initialised from the argument of the first call keeps that value for ever
inline char BadFrozenFlag(bool sampled)
{
  static const char flag = sampled ? '1' : '0';
  return flag;
}
}  // namespace c09
}  // namespace canary
