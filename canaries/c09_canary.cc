// Canaries for C09 (parsed, never executed).
#include <cstddef>
#include <cstdint>
namespace canary
{
namespace c09
{
constexpr int8_t kTable[256] = {0};
inline int8_t BadLookup(char c)
{
  return kTable[static_cast<size_t>(c)];  // signed char keeps its sign
}
}  // namespace c09
}  // namespace canary
