// Canaries for C14 (parsed, never executed).
#include <memory>
#include <string>
#include "opentelemetry/common/kv_properties.h"
namespace canary
{
namespace c14
{
class BadState
{
public:
  void Set(opentelemetry::nostd::string_view key, opentelemetry::nostd::string_view value) noexcept
  {
    kv_->AddEntry(key, value);  // mutates the object itself
  }

private:
  std::unique_ptr<opentelemetry::common::KeyValueProperties> kv_;
};
}  // namespace c14
}  // namespace canary
