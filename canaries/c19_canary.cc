// Canaries for C19 (parsed, never executed).
#include <functional>
#include <regex>
#include <string>
#include <vector>
#include "opentelemetry/nostd/string_view.h"
namespace canary
{
namespace c19
{
inline bool BadValidate(opentelemetry::nostd::string_view name, const std::regex &re)
{
  return std::regex_match(name.data(), re);  // NUL-terminated overload
}
template <class T>
class BadConfigurator
{
public:
  class Builder
  {
  public:
    Builder &AddConditionNameEquals(opentelemetry::nostd::string_view scope_name, T scope_config)
    {
      std::function<bool(const std::string &)> m = [scope_name](const std::string &n) { return n == std::string(scope_name.data(), scope_name.size()); };
      conditions_.emplace_back(m);
      (void)scope_config;
      return *this;
    }
    int Build() const
    {
      auto l = [c = this->conditions_](const std::string &s) {
        for (auto &x : c)
        {
          if (x(s))
            return 1;
        }
        return 0;
      };
      return l("x");
    }

  private:
    std::vector<std::function<bool(const std::string &)>> conditions_;
  };
};
template class BadConfigurator<int>;
}  // namespace c19
}  // namespace canary
