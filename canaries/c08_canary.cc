// Canaries for C08 (parsed, never executed).
#include <limits>
#include <map>
#include <string>
#include "opentelemetry/sdk/common/attribute_utils.h"
#include "opentelemetry/sdk/common/attributemap_hash.h"
namespace canary
{
namespace c08
{
class BadKey : public opentelemetry::sdk::common::OrderedAttributeMap
{
public:
  BadKey() = default;  // keeps the sentinel hash
  BadKey(const opentelemetry::common::KeyValueIterable &attributes) : OrderedAttributeMap()
  {
    UpdateHash();
    attributes.ForEachKeyValue(
        [&](opentelemetry::nostd::string_view key, opentelemetry::common::AttributeValue value) noexcept {
          SetAttribute(key, value);  // inserted after the hash was computed
          return true;
        });
  }
  void UpdateHash() { hash_ = opentelemetry::sdk::common::GetHashForAttributeMap(*this); }

private:
  size_t hash_ = (std::numeric_limits<size_t>::max)();
};
class BadMap : public std::map<std::string, int>
{
public:
  void SetAttribute(const std::string &key, int value) { this->emplace(key, value); }
};
}  // namespace c08
}  // namespace canary
