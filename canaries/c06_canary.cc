// Canaries for C06 (parsed, never executed).
#include <functional>
#include <memory>
#include <mutex>
#include "opentelemetry/common/spin_lock_mutex.h"
#include "opentelemetry/sdk/metrics/aggregation/aggregation.h"
#include "opentelemetry/sdk/metrics/state/attributes_hashmap.h"
namespace canary
{
namespace c06
{
using namespace opentelemetry::sdk::metrics;
class BadStorage
{
public:
  void RecordLong(int64_t value, const opentelemetry::common::KeyValueIterable &attributes) noexcept
  {
    Aggregation *aggregation = nullptr;
    {
      std::lock_guard<opentelemetry::common::SpinLockMutex> guard(attribute_hashmap_lock_);
      aggregation = attributes_hashmap_->GetOrSetDefault(attributes, nullptr, create_default_aggregation_);
    }
    aggregation->Aggregate(value);  // after the lock was released
  }

private:
  std::unique_ptr<AttributesHashMap> attributes_hashmap_;
  std::function<std::unique_ptr<Aggregation>()> create_default_aggregation_;
  opentelemetry::common::SpinLockMutex attribute_hashmap_lock_;
};
}  // namespace c06
}  // namespace canary
