// Canaries for C04 (parsed, never executed).
#include <map>
#include <memory>
#include <mutex>
#include <string>
#include "opentelemetry/sdk/trace/processor.h"
#include "opentelemetry/sdk/trace/recordable.h"
#include "opentelemetry/sdk/trace/span_data.h"

namespace canary
{
namespace c04
{
using opentelemetry::sdk::trace::Recordable;
using opentelemetry::sdk::trace::SpanProcessor;
namespace nostd = opentelemetry::nostd;

class BadSpan
{
public:
  void SetAttribute(nostd::string_view key, const opentelemetry::common::AttributeValue &value) noexcept
  {
    if (recordable_ == nullptr)  // tested before the lock
      return;
    std::lock_guard<std::mutex> lock_guard{mu_};
    recordable_->SetAttribute(key, value);
  }
  void End() noexcept
  {
    if (has_ended_)  // no lock
      return;
    processor_->OnEnd(std::move(recordable_));
    processor_->OnEnd(std::move(recordable_));  // twice, flag never set, never reset
  }

private:
  std::mutex mu_;
  bool has_ended_ = false;
  std::unique_ptr<Recordable> recordable_;
  SpanProcessor *processor_;
};

class BadMulti : public Recordable
{
public:
  void SetIdentity(const opentelemetry::trace::SpanContext &span_context,
                   opentelemetry::trace::SpanId parent_span_id) noexcept override
  {
    for (auto &recordable : recordables_)
    {
      recordable.second->SetIdentity(span_context, parent_span_id);
      break;  // first child only
    }
  }
  void SetAttribute(nostd::string_view, const opentelemetry::common::AttributeValue &) noexcept override {}
  void AddEvent(nostd::string_view, opentelemetry::common::SystemTimestamp,
                const opentelemetry::common::KeyValueIterable &) noexcept override
  {}
  void AddLink(const opentelemetry::trace::SpanContext &, const opentelemetry::common::KeyValueIterable &) noexcept override {}
  void SetStatus(opentelemetry::trace::StatusCode, nostd::string_view) noexcept override {}
  void SetName(nostd::string_view) noexcept override {}
  void SetSpanKind(opentelemetry::trace::SpanKind) noexcept override {}
  void SetResource(const opentelemetry::sdk::resource::Resource &) noexcept override {}
  void SetStartTime(opentelemetry::common::SystemTimestamp) noexcept override {}
  void SetDuration(std::chrono::nanoseconds) noexcept override {}
  void SetInstrumentationScope(
      const opentelemetry::sdk::instrumentationscope::InstrumentationScope &) noexcept override
  {}

private:
  std::map<std::size_t, std::unique_ptr<Recordable>> recordables_;
  nostd::string_view borrowed_name_;  // borrowing field
};

class BadData : public Recordable
{
public:
  void SetIdentity(const opentelemetry::trace::SpanContext &, opentelemetry::trace::SpanId) noexcept override {}
  void SetAttribute(nostd::string_view, const opentelemetry::common::AttributeValue &) noexcept override {}
  void AddEvent(nostd::string_view, opentelemetry::common::SystemTimestamp,
                const opentelemetry::common::KeyValueIterable &) noexcept override
  {}
  void AddLink(const opentelemetry::trace::SpanContext &, const opentelemetry::common::KeyValueIterable &) noexcept override {}
  void SetStatus(opentelemetry::trace::StatusCode code, nostd::string_view description) noexcept override
  {
    code_ = code;
    if (!description.empty())
      desc_ = std::string(description);  // stale description survives
  }
  void SetName(nostd::string_view) noexcept override {}
  void SetSpanKind(opentelemetry::trace::SpanKind) noexcept override {}
  void SetResource(const opentelemetry::sdk::resource::Resource &) noexcept override {}
  void SetStartTime(opentelemetry::common::SystemTimestamp) noexcept override {}
  void SetDuration(std::chrono::nanoseconds) noexcept override {}
  void SetInstrumentationScope(
      const opentelemetry::sdk::instrumentationscope::InstrumentationScope &) noexcept override
  {}

private:
  opentelemetry::trace::StatusCode code_;
  std::string desc_;
};
}  // namespace c04
}  // namespace canary
