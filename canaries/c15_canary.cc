// Canaries for C15 (parsed, never executed).
#include <memory>
#include <vector>
#include "opentelemetry/context/propagation/text_map_propagator.h"
namespace canary
{
namespace c15
{
using namespace opentelemetry::context::propagation;
class BadComposite
{
public:
  void Inject(TextMapCarrier &carrier, const opentelemetry::context::Context &context) noexcept
  {
    for (auto &p : propagators_)
    {
      p->Inject(carrier, context);
      break;  // first only
    }
  }
  opentelemetry::context::Context Extract(const TextMapCarrier &carrier, opentelemetry::context::Context &context) noexcept
  {
    auto first                                  = true;
    opentelemetry::context::Context prev_context = context;
    opentelemetry::context::Context tmp_context;
    for (auto &p : propagators_)
    {
      tmp_context = p->Extract(carrier, prev_context);
      if (first)
      {
        prev_context = tmp_context;  // refreshed once only
        first        = false;
      }
    }
    return tmp_context;
  }

private:
  std::vector<std::unique_ptr<TextMapPropagator>> propagators_;
};
}  // namespace c15
}  // namespace canary
