// Canaries for C02: bad shapes that every run must flag (parsed, never executed).
#include <atomic>
#include <chrono>
#include <condition_variable>
#include <memory>
#include <mutex>
#include <thread>
#include <vector>
#include "opentelemetry/sdk/common/circular_buffer.h"
#include "opentelemetry/sdk/trace/exporter.h"
#include "opentelemetry/sdk/trace/processor.h"
#include "opentelemetry/sdk/trace/recordable.h"

namespace canary
{
namespace c02
{
using opentelemetry::sdk::trace::Recordable;
using opentelemetry::sdk::trace::SpanExporter;
using opentelemetry::sdk::trace::SpanProcessor;
namespace nostd = opentelemetry::nostd;

class BadBatch
{
public:
  explicit BadBatch(std::unique_ptr<SpanExporter> &&e) : exporter_(std::move(e)), buffer_(16)
  {
    worker_ = std::thread(&BadBatch::Work, this);
  }
  void OnEnd(std::unique_ptr<Recordable> &&span) noexcept
  {
    buffer_.Add(std::move(span));  // no shutdown gate
    cv_.notify_all();
  }
  bool ForceFlush(std::chrono::microseconds) noexcept
  {
    std::unique_lock<std::mutex> lk(m_);
    uint64_t mine = pending_.fetch_add(1) + 1;
    cv_.wait(lk);  // untimed
    (void)mine;
    return notified_.load() >= 0;  // not compared with the own ticket
  }
  bool Shutdown(std::chrono::microseconds timeout) noexcept
  {
    bool was = is_shutdown_.load();  // load ...
    is_shutdown_.store(true);        // ... then store
    if (!was)
    {
      exporter_->Shutdown(timeout);  // before the join
    }
    if (worker_.joinable())
      worker_.join();
    return true;
  }

private:
  void Work()
  {
    while (!is_shutdown_.load())
    {
      std::vector<std::unique_ptr<Recordable>> arr;
      size_t n        = buffer_.size();    // snapshot first ...
      uint64_t ticket = pending_.load();   // ... ticket afterwards
      notified_.store(ticket + 7);         // published before the export, value not the ticket
      buffer_.Consume(n, [&](opentelemetry::sdk::common::CircularBufferRange<
                             opentelemetry::sdk::common::AtomicUniquePtr<Recordable>> range) noexcept {
        range.ForEach([&](opentelemetry::sdk::common::AtomicUniquePtr<Recordable> &ptr) {
          std::unique_ptr<Recordable> p;
          ptr.Swap(p);
          arr.push_back(std::move(p));
          return true;
        });
      });
      if (n)
        exporter_->Export(nostd::span<std::unique_ptr<Recordable>>(arr.data(), arr.size()));
      notified_.store(n);  // value unrelated to the ticket, exporter never flushed
    }
  }
  std::unique_ptr<SpanExporter> exporter_;
  opentelemetry::sdk::common::CircularBuffer<Recordable> buffer_;
  std::atomic<uint64_t> pending_{0};
  std::atomic<uint64_t> notified_{0};
  std::atomic<bool> is_shutdown_{false};
  std::mutex m_;
  std::condition_variable cv_;
  std::thread worker_;
};

class BadMulti
{
public:
  bool ForceFlush(std::chrono::microseconds timeout) noexcept
  {
    bool result = true;
    for (auto &p : processors_)
    {
      result |= p->ForceFlush(timeout);
    }
    return result;
  }

  // C02.R10: the short-circuit skips every child after the first failure
  bool Shutdown(std::chrono::microseconds timeout) noexcept
  {
    bool result = true;
    for (auto &p : processors_)
    {
      result = result && p->Shutdown(timeout);
    }
    return result;
  }

private:
  std::vector<std::unique_ptr<SpanProcessor>> processors_;
};

}  // namespace c02
}  // namespace canary

namespace canary
{
namespace c02
{
// publication skipped when the exporter's flush fails (C02.R9)
class BadBatch2
{
public:
  explicit BadBatch2(std::unique_ptr<SpanExporter> &&e) : exporter_(std::move(e)), buffer_(16)
  {
    worker_ = std::thread(&BadBatch2::Work, this);
  }
  bool ForceFlush(std::chrono::microseconds) noexcept
  {
    uint64_t mine = pending_.fetch_add(1) + 1;
    return notified_.load() >= mine;
  }
  bool Shutdown(std::chrono::microseconds) noexcept
  {
    is_shutdown_.exchange(true);
    return true;
  }

private:
  void Work()
  {
    while (!is_shutdown_.load())
    {
      std::vector<std::unique_ptr<Recordable>> arr;
      uint64_t ticket = pending_.load();
      size_t n        = buffer_.size();
      buffer_.Consume(n, [&](opentelemetry::sdk::common::CircularBufferRange<
                             opentelemetry::sdk::common::AtomicUniquePtr<Recordable>> range) noexcept {
        range.ForEach([&](opentelemetry::sdk::common::AtomicUniquePtr<Recordable> &ptr) {
          std::unique_ptr<Recordable> p;
          ptr.Swap(p);
          arr.push_back(std::move(p));
          return true;
        });
      });
      exporter_->Export(nostd::span<std::unique_ptr<Recordable>>(arr.data(), arr.size()));
      if (ticket > notified_.load())
      {
        if (!exporter_->ForceFlush(std::chrono::microseconds(1)))
          continue;  // ticket never published when the exporter fails
        notified_.store(ticket);
      }
    }
  }
  std::unique_ptr<SpanExporter> exporter_;
  opentelemetry::sdk::common::CircularBuffer<Recordable> buffer_;
  std::atomic<uint64_t> pending_{0};
  std::atomic<uint64_t> notified_{0};
  std::atomic<bool> is_shutdown_{false};
  std::thread worker_;
};
}  // namespace c02
}  // namespace canary
