#!/usr/bin/python3
"""debug helper: tools/dbg.py <Cnn> <function-qname-suffix> — dump nodes and blocks of a function as the rules see it"""
import sys, os, json, importlib
sys.path.insert(0, os.path.dirname(os.path.dirname(os.path.abspath(__file__))))
from sa import ir
mod = importlib.import_module('sa.rules.' + sys.argv[1].lower())
units = [os.path.join(ir.REPO, u) for u in mod.UNITS] + [os.path.join(ir.VERIF, 'tu', u) for u in getattr(mod, 'DRIVERS', [])]
prog = ir.load_program(units)
for f in prog.functions(sys.argv[2]):
    print('==', f.qn, f.params)
    for n in f.nodes:
        print('  ', {k: v for k, v in n.items() if k not in ('l',)})
    for b in f.blocks:
        print('  B', b['id'], b['el'], b.get('t'), b['succ'])
