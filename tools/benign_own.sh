#!/bin/sh
# tools/benign_own.sh <dir prefix> [check ids...]: run the own check (and the named extra checks) on the stored refactorings of a
# batch; a quick first look before tools/benign_eval.sh runs all twenty checks
cd "$(dirname "$0")/.."
pref="$1"; shift
for d in benign_wave/${pref}*/; do
  p=$d/patch.diff; [ -f $p ] || continue
  own=$(basename $d | cut -c1-3)
  out=$(tools/mutant.sh $p $own "$@" 2>&1 | grep "violation:\|INCOMPL\|BROKEN\|PATCH" | cut -c1-300)
  if [ -z "$out" ]; then echo "ok    $(basename $d)"; else echo "ALARM $(basename $d)"; echo "$out" | sed 's/^/        /'; fi
done
