#!/usr/bin/python3
"""tools/form_probe.py <mode> [file filter]: mechanical behaviour-preserving rewrites of guards in the anchored files, one site per
probe, each run against the checks whose property anchors the file.  Modes:
  named    `if (X)`        -> `const bool verif_probe_guard = (X); if (verif_probe_guard)`
  demorgan `if (A && B)`   -> `if (!(!(A) || !(B)))`      (top-level && / || of the condition only)
  flip     `if (a < b)`    -> `if (b > a)`                 (conditions that are one comparison)
  negelse  `if (X) {A} else {B}` -> `if (!(X)) {B} else {A}`
A probe that does not parse is skipped (reported as skip); any violation / incomplete / broken line is a FALSE ALARM of the checker.
Scratch copies live under /tmp and are removed; /repo is never touched."""
import concurrent.futures, json, os, re, shutil, subprocess, sys, tempfile
VERIF = os.path.dirname(os.path.dirname(os.path.abspath(__file__)))
mode = sys.argv[1]
flt = sys.argv[2] if len(sys.argv) > 2 else ''
props = [json.loads(l) for l in open(os.path.join(VERIF, 'properties.jsonl'))]
file_props = {}
for p in props:
    for f in p['anchors'].get('files', []):
        file_props.setdefault(f, []).append(p['id'])


def find_ifs(src):
    """(start of 'if', index of '(' , index of matching ')') for plain if statements that can take a declaration in front"""
    out = []
    for m in re.finditer(r'(?<![A-Za-z0-9_])if\s*\(', src):
        s = m.start()
        # not `else if`, not `#if`, not `if constexpr`
        before = src[max(0, s - 12):s]
        if re.search(r'else\s*$', before) or re.search(r'#\s*$', before):
            continue
        line_start = src.rfind('\n', 0, s) + 1
        if src[line_start:s].strip() not in ('',):
            continue          # something else on the line in front of the if (macro, `} else`, label)
        prev = src[:line_start].rstrip()
        if prev.endswith((')', 'else', 'do')) or prev.endswith('\\'):
            continue          # unbraced body of an enclosing statement, or inside a macro definition
        o = m.end() - 1
        depth, i = 0, o
        while i < len(src):
            c = src[i]
            if c == '(':
                depth += 1
            elif c == ')':
                depth -= 1
                if depth == 0:
                    break
            elif c in '"\'':
                q = c
                i += 1
                while i < len(src) and src[i] != q:
                    if src[i] == '\\':
                        i += 1
                    i += 1
            i += 1
        cond = src[o + 1:i]
        if ';' in cond or re.search(r'\b(auto|const|int|size_t|bool)\s+\w+\s*=', cond):
            continue          # declaration in the condition
        out.append((s, o, i))
    return out


def split_top(cond, op):
    parts, depth, last, i = [], 0, 0, 0
    while i < len(cond):
        c = cond[i]
        if c in '([{':
            depth += 1
        elif c in ')]}':
            depth -= 1
        elif c in '"\'':
            q = c
            i += 1
            while i < len(cond) and cond[i] != q:
                if cond[i] == '\\':
                    i += 1
                i += 1
        elif depth == 0 and cond.startswith(op, i):
            parts.append(cond[last:i])
            last = i + len(op)
            i += len(op) - 1
        i += 1
    parts.append(cond[last:])
    return parts


def rewrite(src, site):
    s, o, e = site
    cond = src[o + 1:e]
    indent = src[src.rfind('\n', 0, s) + 1:s]
    if mode == 'named':
        return src[:s] + 'const bool verif_probe_guard = (%s);\n%sif (verif_probe_guard)' % (cond.strip(), indent) + src[e + 1:]
    if mode == 'demorgan':
        for op, other in (('&&', '||'), ('||', '&&')):
            if op in cond and other not in cond and '?' not in cond:
                parts = split_top(cond, op)
                if len(parts) >= 2:
                    return src[:o + 1] + '!(' + (' %s ' % other).join('!(%s)' % p.strip() for p in parts) + ')' + src[e:]
        return None
    if mode == 'flip':
        m = re.match(r'^\s*([^<>=!&|?]+?)\s*(==|!=|<=|>=|<|>)\s*([^<>=!&|?]+?)\s*$', cond, re.S)
        if not m:
            return None
        fl = {'==': '==', '!=': '!=', '<': '>', '>': '<', '<=': '>=', '>=': '<='}[m.group(2)]
        return src[:o + 1] + '%s %s %s' % (m.group(3).strip(), fl, m.group(1).strip()) + src[e:]
    if mode == 'negelse':
        # `if (X) { A } else { B }`  ->  `if (!(X)) { B } else { A }`   (braced bodies only)
        def block_end(i):
            while i < len(src) and src[i] in ' \t\r\n':
                i += 1
            if i >= len(src) or src[i] != '{':
                return None, None
            depth, j = 0, i
            while j < len(src):
                if src[j] == '{':
                    depth += 1
                elif src[j] == '}':
                    depth -= 1
                    if depth == 0:
                        return i, j
                elif src[j] in '"\'':
                    q = src[j]
                    j += 1
                    while j < len(src) and src[j] != q:
                        if src[j] == '\\':
                            j += 1
                        j += 1
                elif src.startswith('//', j):
                    j = src.find('\n', j)
                j += 1
            return None, None
        a0, a1 = block_end(e + 1)
        if a0 is None:
            return None
        m = re.match(r'\s*else\b', src[a1 + 1:])
        if not m:
            return None
        b0, b1 = block_end(a1 + 1 + m.end())
        if b0 is None:
            return None
        return src[:o + 1] + '!(' + cond + ')' + src[e:a0] + src[b0:b1 + 1] + src[a1 + 1:b0] + src[a0:a1 + 1] + src[b1 + 1:]
    raise SystemExit('unknown mode')


def run_probe(job):
    rel, k, site = job
    ids = file_props[rel]
    s = tempfile.mkdtemp(prefix='otel-scratch.')
    try:
        subprocess.check_call('cd /repo && tar cf - --exclude=third_party api sdk exporters ext | tar xf - -C %s' % s, shell=True)
        p = os.path.join(s, rel)
        src = open(p).read()
        new = rewrite(src, site)
        if new is None or new == src:
            return rel, k, 'n/a', ''
        open(p, 'w').write(new)
        os.makedirs(os.path.join(s, '.evidence'))
        env = dict(os.environ, OTEL_REPO=s, VERIF_EVIDENCE_DIR=os.path.join(s, '.evidence'), VERIF_JOBS='2')
        bad = []
        for pid in ids:
            r = subprocess.run([os.path.join(VERIF, 'check'), pid], env=env, capture_output=True, text=True)
            out = r.stdout + r.stderr
            if 'parse' in out.lower() and r.returncode == 2 and 'violation:' not in out:
                return rel, k, 'skip', 'does not parse'
            if r.returncode != 0:
                bad += [pid + ': ' + l.strip()[:230] for l in out.splitlines() if 'violation:' in l or 'ANALYSIS' in l][:4]
        line = src.count('\n', 0, site[0]) + 1
        return rel, k, ('ALARM' if bad else 'ok'), 'line %d: %s' % (line, ' '.join(src[site[1] + 1:site[2]].split())[:90]) + ''.join('\n        ' + b for b in bad)
    finally:
        shutil.rmtree(s, ignore_errors=True)


jobs = []
for rel in sorted(file_props):
    if flt and flt not in rel:
        continue
    path = os.path.join('/repo', rel)
    if not os.path.isfile(path):
        continue
    src = open(path).read()
    for k, site in enumerate(find_ifs(src)):
        jobs.append((rel, k, site))
print('%d probes over %d files' % (len(jobs), len({j[0] for j in jobs})), flush=True)
cnt = {}
with concurrent.futures.ThreadPoolExecutor(max_workers=int(os.environ.get('PROBE_WORKERS') or 6)) as ex:
    for rel, k, verdict, msg in ex.map(run_probe, jobs):
        cnt[verdict] = cnt.get(verdict, 0) + 1
        if verdict in ('ALARM', 'skip'):
            print('%-5s %s #%d %s' % (verdict, rel, k, msg), flush=True)
print('summary:', cnt)
