#!/usr/bin/python3
"""debug helper: tools/dbgq.py <Cnn> <function-qname-suffix> <python expr over prog,f,ir> — evaluate an expression per function"""
import sys, os, importlib
sys.path.insert(0, os.path.dirname(os.path.dirname(os.path.abspath(__file__))))
from sa import ir
from sa.expr import *
from sa.graph import Graph
from sa.rules.common import *
mod = importlib.import_module('sa.rules.' + sys.argv[1].lower())
units = [os.path.join(ir.REPO, u) for u in mod.UNITS] + [os.path.join(ir.VERIF, 'tu', u) for u in getattr(mod, 'DRIVERS', [])]
prog = ir.load_program(units)
for f in prog.functions(sys.argv[2]):
    print('==', f.qn)
    print(eval(sys.argv[3]))
