// otel-ir: lowers every function defined under the given source roots to a compact
// JSON IR (types, globals, expression forest, CFG).  It judges nothing; all rules
// live in /verif/sa.  Built against clang/llvm 14 (libTooling).
//
// usage: otel-ir -o out.json [-root /repo/api -root ...] file.cc -- <compile flags>

#include "clang/AST/ASTConsumer.h"
#include "clang/AST/ASTContext.h"
#include "clang/AST/DeclCXX.h"
#include "clang/AST/DeclTemplate.h"
#include "clang/AST/ExprCXX.h"
#include "clang/AST/RecursiveASTVisitor.h"
#include "clang/AST/StmtCXX.h"
#include "clang/Analysis/CFG.h"
#include "clang/Frontend/CompilerInstance.h"
#include "clang/Frontend/FrontendAction.h"
#include "clang/Tooling/CommonOptionsParser.h"
#include "clang/Tooling/Tooling.h"
#include "llvm/ADT/DenseMap.h"
#include "llvm/ADT/DenseSet.h"
#include "llvm/Support/CommandLine.h"
#include "llvm/Support/FileSystem.h"
#include "llvm/Support/JSON.h"
#include "llvm/Support/Path.h"
#include "llvm/Support/raw_ostream.h"

#include <map>
#include <string>
#include <vector>

using namespace clang;
using namespace clang::tooling;
namespace json = llvm::json;

static llvm::cl::OptionCategory Cat("otel-ir options");
static llvm::cl::opt<std::string> OutFile("o", llvm::cl::desc("output JSON"), llvm::cl::Required,
                                          llvm::cl::cat(Cat));
static llvm::cl::list<std::string> Roots("root", llvm::cl::desc("source roots in scope"),
                                         llvm::cl::cat(Cat));
static llvm::cl::list<std::string> Excl("exclude", llvm::cl::desc("path substrings out of scope"),
                                        llvm::cl::cat(Cat));

namespace
{

struct Extractor
{
  ASTContext &AC;
  SourceManager &SM;
  PrintingPolicy PP;

  std::vector<std::string> strs;
  std::map<std::string, int> strIdx;
  llvm::DenseMap<const Decl *, int> varIds;
  llvm::DenseSet<const Decl *> seenFns, seenRecs, seenVars;

  json::Array functions, records, globals, aliases;

  explicit Extractor(ASTContext &C) : AC(C), SM(C.getSourceManager()), PP(C.getLangOpts())
  {
    PP.SuppressInlineNamespace = true;
    PP.SuppressTagKeyword      = true;
    PP.Bool                    = true;
    PP.SuppressUnwrittenScope  = true;
    PP.FullyQualifiedName      = true;
    PP.TerseOutput             = true;
    PP.PolishForDeclaration    = true;
    PP.AnonymousTagLocations   = false;
    C.setPrintingPolicy(PP);
  }

  int S(llvm::StringRef s)
  {
    auto it = strIdx.find(s.str());
    if (it != strIdx.end())
      return it->second;
    int i = static_cast<int>(strs.size());
    strs.push_back(s.str());
    strIdx.emplace(s.str(), i);
    return i;
  }

  std::string fileOf(SourceLocation L)
  {
    if (L.isInvalid())
      return "";
    L                 = SM.getExpansionLoc(L);
    llvm::StringRef f = SM.getFilename(L);
    llvm::SmallString<256> p(f);
    llvm::sys::path::remove_dots(p, true);
    return std::string(p.str());
  }
  unsigned lineOf(SourceLocation L)
  {
    if (L.isInvalid())
      return 0;
    return SM.getExpansionLineNumber(L);
  }

  bool inScope(SourceLocation L)
  {
    std::string f = fileOf(L);
    if (f.empty())
      return false;
    bool ok = false;
    for (auto &r : Roots)
      if (llvm::StringRef(f).startswith(r))
      {
        ok = true;
        break;
      }
    if (!ok)
      return false;
    for (auto &e : Excl)
      if (f.find(e) != std::string::npos)
        return false;
    return true;
  }

  std::string typeStr(QualType T)
  {
    if (T.isNull())
      return "";
    return T.getCanonicalType().getAsString(PP);
  }
  std::string typeStrWritten(QualType T)
  {
    if (T.isNull())
      return "";
    return T.getAsString(PP);
  }

  std::string qname(const NamedDecl *D)
  {
    std::string s;
    llvm::raw_string_ostream os(s);
    D->printQualifiedName(os, PP);
    os.flush();
    return s;
  }

  std::string tmplArgs(const TemplateArgumentList *L)
  {
    if (!L)
      return "";
    std::string s = "<";
    llvm::raw_string_ostream os(s);
    for (unsigned i = 0; i < L->size(); ++i)
    {
      if (i)
        os << ",";
      L->get(i).print(PP, os, true);
    }
    os << ">";
    os.flush();
    return s;
  }

  // Unique key of a function: qualified name + function template args + parameter types.
  std::string fnKey(const FunctionDecl *FD)
  {
    std::string k = qname(FD);
    if (auto *TA = FD->getTemplateSpecializationArgs())
      k += tmplArgs(TA);
    k += "(";
    bool first = true;
    for (auto *P : FD->parameters())
    {
      if (!first)
        k += ",";
      first = false;
      k += typeStr(P->getType());
    }
    k += ")";
    if (auto *MD = dyn_cast<CXXMethodDecl>(FD))
    {
      if (MD->isConst())
        k += " const";
      if (MD->getRefQualifier() == RQ_RValue)
        k += " &&";
      // lambdas: make the key unique by location
      if (MD->getParent()->isLambda())
      {
        k += "@" + fileOf(MD->getLocation()) + ":" + std::to_string(lineOf(MD->getLocation())) +
             ":" + std::to_string(SM.getExpansionColumnNumber(MD->getLocation()));
      }
    }
    return k;
  }

  int varId(const Decl *D)
  {
    D       = D->getCanonicalDecl();
    auto it = varIds.find(D);
    if (it != varIds.end())
      return it->second;
    int id = static_cast<int>(varIds.size()) + 1;
    varIds[D] = id;
    return id;
  }

  // ---------------------------------------------------------------- expression forest
  struct Fn
  {
    std::vector<json::Object> nodes;
    llvm::DenseMap<const Stmt *, int> idx;
  };

  static const Stmt *strip(const Stmt *S)
  {
    while (S)
    {
      if (auto *P = dyn_cast<ParenExpr>(S))
        S = P->getSubExpr();
      else if (auto *I = dyn_cast<ImplicitCastExpr>(S))
        S = I->getSubExpr();
      else if (auto *F = dyn_cast<FullExpr>(S))
        S = F->getSubExpr();
      else if (auto *M = dyn_cast<MaterializeTemporaryExpr>(S))
        S = M->getSubExpr();
      else if (auto *B = dyn_cast<CXXBindTemporaryExpr>(S))
        S = B->getSubExpr();
      else if (auto *N = dyn_cast<SubstNonTypeTemplateParmExpr>(S))
        S = N->getReplacement();
      else
        break;
    }
    return S;
  }

  void setCallee(json::Object &o, const FunctionDecl *FD)
  {
    if (!FD)
      return;
    o["c"]  = S(qname(FD));
    o["ck"] = S(fnKey(FD));
    if (auto *MD = dyn_cast<CXXMethodDecl>(FD))
    {
      o["cls"] = S(qname(MD->getParent()));
      if (MD->isVirtual())
        o["virt"] = true;
      if (MD->isConst())
        o["cconst"] = true;
      if (MD->isStatic())
        o["cstatic"] = true;
    }
    // parameter passing modes: which parameters are non-const references / pointers
    json::Array pm;
    for (auto *P : FD->parameters())
    {
      QualType T = P->getType();
      int mode   = 0;  // 0 value/const ref, 1 non-const lvalue ref, 2 rvalue ref, 3 pointer to non-const
      if (T->isLValueReferenceType() && !T.getNonReferenceType().isConstQualified())
        mode = 1;
      else if (T->isRValueReferenceType())
        mode = 2;
      else if (T->isPointerType() && !T->getPointeeType().isConstQualified())
        mode = 3;
      pm.push_back(mode);
    }
    o["pm"] = std::move(pm);
  }

  void constVal(json::Object &o, const Expr *E)
  {
    if (E->isValueDependent() || E->isTypeDependent())
      return;
    QualType T = E->getType();
    if (T.isNull())
      return;
    if (!(T->isIntegralOrEnumerationType()))
      return;
    if (!E->isPRValue() && !isa<DeclRefExpr>(E) && !isa<MemberExpr>(E))
      return;
    Expr::EvalResult R;
    if (E->EvaluateAsInt(R, AC, Expr::SE_NoSideEffects))
    {
      llvm::APSInt V = R.Val.getInt();
      if (V.isSigned() || V.getActiveBits() < 64)
      {
        if (V.getMinSignedBits() <= 64 || (!V.isSigned() && V.getActiveBits() < 64))
          o["v"] = V.isSigned() ? V.getSExtValue() : static_cast<int64_t>(V.getZExtValue());
      }
      else
      {
        o["vs"] = llvm::toString(V, 10);
      }
    }
  }

  json::Array emitList(Fn &F, llvm::ArrayRef<const Stmt *> L)
  {
    json::Array a;
    for (auto *s : L)
      if (s)
        a.push_back(emit(F, s));
    return a;
  }

  int emit(Fn &F, const Stmt *St)
  {
    const Stmt *Sx = strip(St);
    if (!Sx)
      return -1;
    auto it = F.idx.find(Sx);
    if (it != F.idx.end())
      return it->second;

    json::Object o;
    o["l"] = static_cast<int64_t>(lineOf(Sx->getBeginLoc()));
    if (auto *E = dyn_cast<Expr>(Sx))
    {
      o["t"] = S(typeStr(E->getType()));
      if (E->isLValue())
        o["lv"] = true;
    }

    auto children = [&](const Stmt *P) {
      json::Array a;
      for (const Stmt *c : P->children())
        if (c)
        {
          int i = emit(F, c);
          if (i >= 0)
            a.push_back(i);
        }
      return a;
    };
    auto argsOf = [&](const CallExpr *CE, unsigned from, json::Object &oo) {
      json::Array a, da;
      for (unsigned i = from; i < CE->getNumArgs(); ++i)
      {
        const Expr *A = CE->getArg(i);
        if (isa<CXXDefaultArgExpr>(A))
          da.push_back(static_cast<int64_t>(i - from));
        a.push_back(emit(F, A));
      }
      oo["args"] = std::move(a);
      if (!da.empty())
        oo["defargs"] = std::move(da);
    };

    if (auto *OC = dyn_cast<CXXOperatorCallExpr>(Sx))
    {
      o["k"]  = "call";
      o["op"] = S(getOperatorSpelling(OC->getOperator()));
      const FunctionDecl *FD = OC->getDirectCallee();
      setCallee(o, FD);
      auto *MD = dyn_cast_or_null<CXXMethodDecl>(FD);
      if (MD && !MD->isStatic() && OC->getNumArgs() > 0)
      {
        o["obj"] = emit(F, OC->getArg(0));
        argsOf(OC, 1, o);
      }
      else
        argsOf(OC, 0, o);
      if (!FD)
        o["fx"] = emit(F, OC->getCallee());
    }
    else if (auto *MC = dyn_cast<CXXMemberCallExpr>(Sx))
    {
      o["k"] = "call";
      setCallee(o, MC->getMethodDecl());
      if (const Expr *Obj = MC->getImplicitObjectArgument())
        o["obj"] = emit(F, Obj);
      if (auto *ME = dyn_cast<MemberExpr>(MC->getCallee()->IgnoreParens()))
      {
        if (ME->isArrow())
          o["arrow"] = true;
        if (ME->hasQualifier())
          o["qual"] = true;
      }
      else if (!MC->getMethodDecl())
        o["fx"] = emit(F, MC->getCallee());
      argsOf(MC, 0, o);
    }
    else if (auto *CE = dyn_cast<CallExpr>(Sx))
    {
      o["k"]                 = "call";
      const FunctionDecl *FD = CE->getDirectCallee();
      setCallee(o, FD);
      if (!FD)
        o["fx"] = emit(F, CE->getCallee());
      argsOf(CE, 0, o);
    }
    else if (auto *CC = dyn_cast<CXXConstructExpr>(Sx))
    {
      o["k"] = "construct";
      setCallee(o, CC->getConstructor());
      json::Array a, da;
      for (unsigned i = 0; i < CC->getNumArgs(); ++i)
      {
        if (isa<CXXDefaultArgExpr>(CC->getArg(i)))
          da.push_back(static_cast<int64_t>(i));
        a.push_back(emit(F, CC->getArg(i)));
      }
      o["args"] = std::move(a);
      if (!da.empty())
        o["defargs"] = std::move(da);
      if (CC->isElidable())
        o["elidable"] = true;
      if (CC->getConstructor()->isCopyOrMoveConstructor())
        o["copymove"] = CC->getConstructor()->isMoveConstructor() ? "move" : "copy";
    }
    else if (auto *NE = dyn_cast<CXXNewExpr>(Sx))
    {
      o["k"]  = "new";
      o["ty"] = S(typeStr(NE->getAllocatedType()));
      if (NE->getInitializer())
        o["init"] = emit(F, NE->getInitializer());
      if (NE->isArray() && NE->getArraySize() && *NE->getArraySize())
        o["size"] = emit(F, *NE->getArraySize());
      json::Array pa;
      for (unsigned i = 0; i < NE->getNumPlacementArgs(); ++i)
        pa.push_back(emit(F, NE->getPlacementArg(i)));
      if (!pa.empty())
        o["placement"] = std::move(pa);
    }
    else if (auto *DE = dyn_cast<CXXDeleteExpr>(Sx))
    {
      o["k"] = "delete";
      o["e"] = emit(F, DE->getArgument());
      if (DE->isArrayForm())
        o["array"] = true;
    }
    else if (auto *ME = dyn_cast<MemberExpr>(Sx))
    {
      o["k"]    = "member";
      o["base"] = emit(F, ME->getBase());
      o["name"] = S(ME->getMemberDecl()->getNameAsString());
      if (ME->isArrow())
        o["arrow"] = true;
      const ValueDecl *MD = ME->getMemberDecl();
      if (isa<FieldDecl>(MD))
        o["mk"] = "field";
      else if (isa<CXXMethodDecl>(MD))
        o["mk"] = "method";
      else
        o["mk"] = "var";
      if (auto *RD = dyn_cast<CXXRecordDecl>(MD->getDeclContext()))
        o["owner"] = S(qname(RD));
      if (isa<VarDecl>(MD))
        o["qn"] = S(qname(MD));
      constVal(o, ME);
    }
    else if (isa<CXXThisExpr>(Sx))
    {
      o["k"] = "this";
    }
    else if (auto *DR = dyn_cast<DeclRefExpr>(Sx))
    {
      o["k"]             = "ref";
      const ValueDecl *D = DR->getDecl();
      o["name"]          = S(D->getNameAsString());
      if (auto *VD = dyn_cast<VarDecl>(D))
      {
        o["id"] = varId(VD);
        const char *sk = "local";
        if (isa<ParmVarDecl>(VD))
          sk = "param";
        else if (VD->getTLSKind() != VarDecl::TLS_None)
          sk = "tls";
        else if (VD->isStaticLocal())
          sk = "static_local";
        else if (VD->hasGlobalStorage())
          sk = "global";
        o["sk"] = sk;
        if (VD->hasGlobalStorage())
          o["qn"] = S(qname(VD));
        if (DR->refersToEnclosingVariableOrCapture())
          o["cap"] = true;
      }
      else if (isa<FunctionDecl>(D))
      {
        o["sk"] = "func";
        o["qn"] = S(qname(D));
        o["ck"] = S(fnKey(cast<FunctionDecl>(D)));
      }
      else if (isa<EnumConstantDecl>(D))
      {
        o["sk"] = "enum";
        o["qn"] = S(qname(D));
      }
      else if (auto *BD = dyn_cast<BindingDecl>(D))
      {
        o["sk"] = "binding";
        o["id"] = varId(BD);
      }
      else
        o["sk"] = "other";
      constVal(o, DR);
    }
    else if (auto *IL = dyn_cast<IntegerLiteral>(Sx))
    {
      o["k"] = "lit";
      constVal(o, IL);
    }
    else if (auto *CL = dyn_cast<CharacterLiteral>(Sx))
    {
      o["k"]  = "lit";
      o["char"] = true;
      o["v"]    = static_cast<int64_t>(CL->getValue());
    }
    else if (auto *BL = dyn_cast<CXXBoolLiteralExpr>(Sx))
    {
      o["k"] = "lit";
      o["v"] = static_cast<int64_t>(BL->getValue() ? 1 : 0);
    }
    else if (auto *FL = dyn_cast<FloatingLiteral>(Sx))
    {
      o["k"]  = "lit";
      o["fv"] = FL->getValueAsApproximateDouble();
    }
    else if (isa<CXXNullPtrLiteralExpr>(Sx) || isa<GNUNullExpr>(Sx))
    {
      o["k"]    = "lit";
      o["null"] = true;
    }
    else if (auto *SL = dyn_cast<clang::StringLiteral>(Sx))
    {
      o["k"] = "str";
      if (SL->getCharByteWidth() == 1)
        o["s"] = S(SL->getBytes());
    }
    else if (auto *BO = dyn_cast<BinaryOperator>(Sx))
    {
      o["k"]   = "binop";
      o["op"]  = S(BO->getOpcodeStr());
      o["lhs"] = emit(F, BO->getLHS());
      o["rhs"] = emit(F, BO->getRHS());
      constVal(o, BO);
    }
    else if (auto *UO = dyn_cast<UnaryOperator>(Sx))
    {
      o["k"]  = "unop";
      o["op"] = S(UnaryOperator::getOpcodeStr(UO->getOpcode()));
      if (UO->isPostfix())
        o["post"] = true;
      o["e"] = emit(F, UO->getSubExpr());
      constVal(o, UO);
    }
    else if (auto *CO = dyn_cast<ConditionalOperator>(Sx))
    {
      o["k"] = "cond";
      o["cnd"] = emit(F, CO->getCond());
      o["a"] = emit(F, CO->getTrueExpr());
      o["b"] = emit(F, CO->getFalseExpr());
      constVal(o, CO);
    }
    else if (auto *EC = dyn_cast<ExplicitCastExpr>(Sx))
    {
      o["k"]  = "cast";
      o["to"] = S(typeStr(EC->getTypeAsWritten()));
      o["ck"] = S(EC->getCastKindName());
      o["e"]  = emit(F, EC->getSubExpr());
      constVal(o, EC);
    }
    else if (auto *AS = dyn_cast<ArraySubscriptExpr>(Sx))
    {
      o["k"]     = "subscript";
      o["base"]  = emit(F, AS->getBase());
      o["index"] = emit(F, AS->getIdx());
      // static extent of the subscripted array, when known
      QualType BT = AS->getBase()->IgnoreParenImpCasts()->getType();
      if (auto *CAT = AC.getAsConstantArrayType(BT))
        o["extent"] = static_cast<int64_t>(CAT->getSize().getZExtValue());
      // type of the index before promotion
      o["it"] = S(typeStr(AS->getIdx()->IgnoreParenImpCasts()->getType()));
    }
    else if (auto *LE = dyn_cast<LambdaExpr>(Sx))
    {
      o["k"] = "lambda";
      if (auto *CO2 = LE->getCallOperator())
        o["fn"] = S(fnKey(CO2));
      json::Array caps;
      auto CI = LE->capture_init_begin();
      for (auto C = LE->capture_begin(); C != LE->capture_end(); ++C, ++CI)
      {
        json::Object c;
        if (C->capturesThis())
          c["this"] = true;
        else if (C->capturesVariable())
        {
          c["id"]   = varId(C->getCapturedVar());
          c["name"] = S(C->getCapturedVar()->getNameAsString());
          c["t"]    = S(typeStr(C->getCapturedVar()->getType()));
          if (auto *CV = dyn_cast<VarDecl>(C->getCapturedVar()))
            if (CV->isInitCapture())
              c["initcap"] = true;
        }
        if (C->getCaptureKind() == LCK_ByRef)
          c["byref"] = true;
        if (*CI && !C->capturesThis() && C->getCaptureKind() == LCK_ByCopy)
          c["init"] = emit(F, *CI);
        caps.push_back(std::move(c));
      }
      o["caps"] = std::move(caps);
    }
    else if (auto *DS = dyn_cast<DeclStmt>(Sx))
    {
      o["k"] = "declstmt";
      json::Array ds;
      for (auto *D : DS->decls())
      {
        if (auto *VD = dyn_cast<VarDecl>(D))
        {
          json::Object d;
          d["id"]   = varId(VD);
          d["name"] = S(VD->getNameAsString());
          d["t"]    = S(typeStr(VD->getType()));
          if (VD->isStaticLocal())
            d["static"] = true;
          if (VD->getTLSKind() != VarDecl::TLS_None)
            d["tls"] = true;
          if (VD->getInit())
            d["init"] = emit(F, VD->getInit());
          ds.push_back(std::move(d));
        }
      }
      o["decls"] = std::move(ds);
    }
    else if (auto *RS = dyn_cast<ReturnStmt>(Sx))
    {
      o["k"] = "return";
      if (RS->getRetValue())
        o["e"] = emit(F, RS->getRetValue());
    }
    else if (auto *IE = dyn_cast<InitListExpr>(Sx))
    {
      o["k"]     = "initlist";
      auto *Sem  = IE->isSemanticForm() ? IE : (IE->getSemanticForm() ? IE->getSemanticForm() : IE);
      json::Array a;
      for (auto *e : Sem->inits())
        if (e)
          a.push_back(emit(F, e));
      o["ch"] = std::move(a);
    }
    else if (auto *DA = dyn_cast<CXXDefaultArgExpr>(Sx))
    {
      o["k"]     = "defarg";
      o["param"] = S(DA->getParam()->getNameAsString());
      constVal(o, DA);
    }
    else if (auto *DI = dyn_cast<CXXDefaultInitExpr>(Sx))
    {
      o["k"]     = "definit";
      o["field"] = S(DI->getField()->getNameAsString());
    }
    else if (auto *UE = dyn_cast<UnaryExprOrTypeTraitExpr>(Sx))
    {
      o["k"] = "sizeof";
      constVal(o, UE);
    }
    else if (auto *IS = dyn_cast<IfStmt>(Sx))
    {
      o["k"] = "if";
      if (IS->getInit())
        o["init"] = emit(F, IS->getInit());
      if (IS->getConditionVariableDeclStmt())
        o["cv"] = emit(F, IS->getConditionVariableDeclStmt());
      if (IS->getCond())
        o["cnd"] = emit(F, IS->getCond());
      if (IS->getThen())
        o["th"] = emit(F, IS->getThen());
      if (IS->getElse())
        o["el"] = emit(F, IS->getElse());
    }
    else if (auto *WS = dyn_cast<WhileStmt>(Sx))
    {
      o["k"]    = "while";
      o["cnd"]  = emit(F, WS->getCond());
      o["body"] = emit(F, WS->getBody());
    }
    else if (auto *DoS = dyn_cast<DoStmt>(Sx))
    {
      o["k"]    = "do";
      o["cnd"]  = emit(F, DoS->getCond());
      o["body"] = emit(F, DoS->getBody());
    }
    else if (auto *FS = dyn_cast<ForStmt>(Sx))
    {
      o["k"] = "for";
      if (FS->getInit())
        o["init"] = emit(F, FS->getInit());
      if (FS->getCond())
        o["cnd"] = emit(F, FS->getCond());
      if (FS->getInc())
        o["inc"] = emit(F, FS->getInc());
      o["body"] = emit(F, FS->getBody());
    }
    else if (auto *RF = dyn_cast<CXXForRangeStmt>(Sx))
    {
      o["k"]     = "forrange";
      o["range"] = emit(F, RF->getRangeInit());
      o["var"]   = varId(RF->getLoopVariable());
      o["vname"] = S(RF->getLoopVariable()->getNameAsString());
      o["ch"]    = children(RF);
      o["body"]  = emit(F, RF->getBody());
    }
    else if (isa<BreakStmt>(Sx))
      o["k"] = "break";
    else if (isa<ContinueStmt>(Sx))
      o["k"] = "continue";
    else if (auto *TE = dyn_cast<CXXThrowExpr>(Sx))
    {
      o["k"] = "throw";
      if (TE->getSubExpr())
        o["e"] = emit(F, TE->getSubExpr());
    }
    else
    {
      o["k"]  = S(Sx->getStmtClassName());
      o["kx"] = true;  // kind is an interned string
      o["ch"] = children(Sx);
      if (auto *E = dyn_cast<Expr>(Sx))
        constVal(o, E);
    }

    int id = static_cast<int>(F.nodes.size());
    F.nodes.push_back(std::move(o));
    F.idx[Sx] = id;
    return id;
  }

  // ---------------------------------------------------------------- functions
  void lowerFunction(const FunctionDecl *FD)
  {
    if (!FD || !FD->doesThisDeclarationHaveABody() || FD->isDependentContext())
      return;
    if (!inScope(FD->getLocation()))
      return;
    if (!seenFns.insert(FD).second)
      return;
    const Stmt *Body = FD->getBody();
    if (!Body)
      return;

    Fn F;
    json::Object fo;
    fo["qn"]   = S(qname(FD));
    fo["key"]  = S(fnKey(FD));
    fo["name"] = S(FD->getNameAsString());
    fo["file"] = S(fileOf(FD->getLocation()));
    fo["line"] = static_cast<int64_t>(lineOf(FD->getBeginLoc()));
    fo["end"]  = static_cast<int64_t>(lineOf(FD->getEndLoc()));
    fo["ret"]  = S(typeStr(FD->getReturnType()));
    if (FD->getTemplateInstantiationPattern())
      fo["inst"] = true;
    if (auto *TA = FD->getTemplateSpecializationArgs())
      fo["targs"] = S(tmplArgs(TA));
    if (FD->getStorageClass() == SC_Static || FD->isInAnonymousNamespace())
      fo["local"] = true;
    if (FD->getExceptionSpecType() == EST_BasicNoexcept || FD->getExceptionSpecType() == EST_NoexceptTrue)
      fo["noexcept"] = true;
    json::Array ps;
    for (auto *P : FD->parameters())
    {
      json::Object p;
      p["id"]   = varId(P);
      p["name"] = S(P->getNameAsString());
      p["t"]    = S(typeStr(P->getType()));
      ps.push_back(std::move(p));
    }
    fo["params"] = std::move(ps);
    if (auto *MD = dyn_cast<CXXMethodDecl>(FD))
    {
      fo["cls"] = S(qname(MD->getParent()));
      if (MD->isConst())
        fo["const"] = true;
      if (MD->isVirtual())
        fo["virtual"] = true;
      if (MD->isStatic())
        fo["static"] = true;
      if (isa<CXXConstructorDecl>(MD))
        fo["kind"] = "ctor";
      else if (isa<CXXDestructorDecl>(MD))
        fo["kind"] = "dtor";
      else if (MD->isCopyAssignmentOperator())
        fo["kind"] = "copyassign";
      else if (MD->isMoveAssignmentOperator())
        fo["kind"] = "moveassign";
      if (MD->getParent()->isLambda())
      {
        fo["lambda"] = true;
        if (auto *PF = dyn_cast_or_null<FunctionDecl>(MD->getParent()->getParentFunctionOrMethod()))
          fo["parent"] = S(fnKey(PF));
      }
      json::Array ov;
      for (auto *O : MD->overridden_methods())
        ov.push_back(S(fnKey(O)));
      if (!ov.empty())
        fo["over"] = std::move(ov);
      switch (MD->getAccess())
      {
        case AS_public:
          fo["access"] = "public";
          break;
        case AS_protected:
          fo["access"] = "protected";
          break;
        case AS_private:
          fo["access"] = "private";
          break;
        default:
          break;
      }
    }

    int bodyIdx = emit(F, Body);
    fo["body"]  = bodyIdx;

    CFG::BuildOptions BO;
    BO.setAllAlwaysAdd();
    BO.AddImplicitDtors  = true;
    BO.AddTemporaryDtors = true;
    BO.AddInitializers   = true;
    BO.AddEHEdges        = false;
    std::unique_ptr<CFG> G = CFG::buildCFG(FD, const_cast<Stmt *>(Body), &AC, BO);
    if (G)
    {
      json::Array blocks;
      for (const CFGBlock *B : *G)
      {
        json::Object bo;
        bo["id"] = static_cast<int64_t>(B->getBlockID());
        json::Array els;
        llvm::DenseSet<int> seen;
        for (const CFGElement &E : *B)
        {
          if (auto CS = E.getAs<CFGStmt>())
          {
            int i = emit(F, CS->getStmt());
            if (i >= 0 && seen.insert(i).second)
              els.push_back(i);
          }
          else if (auto CI = E.getAs<CFGInitializer>())
          {
            const CXXCtorInitializer *I = CI->getInitializer();
            json::Object io;
            if (I->isAnyMemberInitializer())
              io["init"] = S(I->getAnyMember()->getNameAsString());
            else if (I->isBaseInitializer())
              io["baseinit"] = S(typeStr(QualType(I->getBaseClass(), 0)));
            else
              io["delegating"] = true;
            if (I->getInit())
              io["e"] = emit(F, I->getInit());
            if (I->isWritten())
              io["written"] = true;
            els.push_back(std::move(io));
          }
          else if (auto AD = E.getAs<CFGAutomaticObjDtor>())
          {
            json::Object d;
            d["dtor"] = varId(AD->getVarDecl());
            d["t"]    = S(typeStr(AD->getVarDecl()->getType()));
            els.push_back(std::move(d));
          }
          else if (auto TD = E.getAs<CFGTemporaryDtor>())
          {
            json::Object d;
            d["tmpdtor"] = S(typeStr(TD->getBindTemporaryExpr()->getType()));
            els.push_back(std::move(d));
          }
          else if (auto MDt = E.getAs<CFGMemberDtor>())
          {
            json::Object d;
            d["memberdtor"] = S(MDt->getFieldDecl()->getNameAsString());
            els.push_back(std::move(d));
          }
          else if (auto DD = E.getAs<CFGDeleteDtor>())
          {
            json::Object d;
            d["deletedtor"] = emit(F, DD->getDeleteExpr());
            els.push_back(std::move(d));
          }
        }
        bo["el"] = std::move(els);
        if (B->hasNoReturnElement())
          bo["nr"] = true;
        if (const Stmt *T = B->getTerminatorStmt())
        {
          json::Object t;
          t["k"] = S(T->getStmtClassName());
          if (const Stmt *C = B->getTerminatorCondition(true))
            t["cnd"] = emit(F, C);
          t["s"] = emit(F, T);
          if (B->getTerminator().isTemporaryDtorsBranch())
            t["tmpdtor"] = true;
          bo["t"] = std::move(t);
        }
        if (const Stmt *L = B->getLabel())
        {
          json::Object lo;
          if (auto *CS = dyn_cast<CaseStmt>(L))
          {
            lo["k"] = "case";
            Expr::EvalResult R;
            if (CS->getLHS() && CS->getLHS()->EvaluateAsInt(R, AC))
              lo["v"] = R.Val.getInt().getExtValue();
            if (auto *DRE = dyn_cast<DeclRefExpr>(CS->getLHS()->IgnoreParenImpCasts()))
              lo["qn"] = S(qname(DRE->getDecl()));
            else if (auto *CE2 = dyn_cast<ConstantExpr>(CS->getLHS()))
              if (auto *DRE2 = dyn_cast<DeclRefExpr>(CE2->getSubExpr()->IgnoreParenImpCasts()))
                lo["qn"] = S(qname(DRE2->getDecl()));
          }
          else if (isa<DefaultStmt>(L))
            lo["k"] = "default";
          else
            lo["k"] = "label";
          bo["label"] = std::move(lo);
        }
        json::Array succs;
        for (auto SI = B->succ_begin(); SI != B->succ_end(); ++SI)
        {
          if (const CFGBlock *R = SI->getReachableBlock())
            succs.push_back(static_cast<int64_t>(R->getBlockID()));
          else
            succs.push_back(nullptr);  // pruned / unreachable edge
        }
        bo["succ"] = std::move(succs);
        blocks.push_back(std::move(bo));
      }
      fo["blocks"] = std::move(blocks);
      fo["entry"]  = static_cast<int64_t>(G->getEntry().getBlockID());
      fo["exit"]   = static_cast<int64_t>(G->getExit().getBlockID());
    }

    json::Array nodes;
    for (auto &n : F.nodes)
      nodes.push_back(std::move(n));
    fo["nodes"] = std::move(nodes);
    functions.push_back(std::move(fo));
  }

  // ---------------------------------------------------------------- records
  static const char *accessStr(AccessSpecifier A)
  {
    switch (A)
    {
      case AS_public:
        return "public";
      case AS_protected:
        return "protected";
      case AS_private:
        return "private";
      default:
        return "none";
    }
  }

  void lowerRecord(const CXXRecordDecl *RD)
  {
    if (!RD->isCompleteDefinition() || RD->isDependentContext() || RD->isLambda())
      return;
    if (!inScope(RD->getLocation()))
      return;
    if (!seenRecs.insert(RD).second)
      return;
    json::Object ro;
    ro["qn"]   = S(qname(RD));
    ro["file"] = S(fileOf(RD->getLocation()));
    ro["line"] = static_cast<int64_t>(lineOf(RD->getLocation()));
    if (RD->isAbstract())
      ro["abstract"] = true;
    if (isa<ClassTemplateSpecializationDecl>(RD))
      ro["inst"] = true;
    json::Array bases;
    for (auto &B : RD->bases())
    {
      json::Object b;
      b["t"]      = S(typeStr(B.getType()));
      b["access"] = accessStr(B.getAccessSpecifier());
      if (B.isVirtual())
        b["virtual"] = true;
      bases.push_back(std::move(b));
    }
    ro["bases"] = std::move(bases);
    json::Array fields;
    for (auto *Fd : RD->fields())
    {
      json::Object f;
      f["name"]   = S(Fd->getNameAsString());
      f["t"]      = S(typeStr(Fd->getType()));
      f["tw"]     = S(typeStrWritten(Fd->getType()));
      f["access"] = accessStr(Fd->getAccess());
      if (Fd->isMutable())
        f["mutable"] = true;
      if (Fd->hasInClassInitializer())
      {
        f["hasinit"] = true;
        if (const Expr *I = Fd->getInClassInitializer())
        {
          Expr::EvalResult R;
          if (!I->isValueDependent() && I->getType()->isIntegralOrEnumerationType() &&
              I->EvaluateAsInt(R, AC, Expr::SE_NoSideEffects))
            f["initv"] = R.Val.getInt().getExtValue();
        }
      }
      f["line"] = static_cast<int64_t>(lineOf(Fd->getLocation()));
      fields.push_back(std::move(f));
    }
    ro["fields"] = std::move(fields);
    json::Array methods;
    for (auto *D : RD->decls())
    {
      const CXXMethodDecl *MD = dyn_cast<CXXMethodDecl>(D);
      if (!MD)
        if (auto *FT = dyn_cast<FunctionTemplateDecl>(D))
        {
          json::Object m;
          m["name"]     = S(FT->getNameAsString());
          m["template"] = true;
          m["access"]   = accessStr(FT->getAccess());
          methods.push_back(std::move(m));
          continue;
        }
      if (!MD)
        continue;
      if (MD->isImplicit())
        continue;
      json::Object m;
      m["name"]   = S(MD->getNameAsString());
      m["key"]    = S(fnKey(MD));
      m["ret"]    = S(typeStr(MD->getReturnType()));
      m["access"] = accessStr(MD->getAccess());
      m["line"]   = static_cast<int64_t>(lineOf(MD->getLocation()));
      if (MD->isConst())
        m["const"] = true;
      if (MD->isVirtual())
        m["virtual"] = true;
      if (MD->isPure())
        m["pure"] = true;
      if (MD->isStatic())
        m["static"] = true;
      if (MD->isDeleted())
        m["deleted"] = true;
      if (MD->isDefaulted())
        m["defaulted"] = true;
      if (isa<CXXConstructorDecl>(MD))
      {
        m["kind"] = "ctor";
        if (cast<CXXConstructorDecl>(MD)->isCopyConstructor())
          m["copyctor"] = true;
        if (cast<CXXConstructorDecl>(MD)->isMoveConstructor())
          m["movector"] = true;
      }
      else if (isa<CXXDestructorDecl>(MD))
        m["kind"] = "dtor";
      else if (MD->isCopyAssignmentOperator())
        m["kind"] = "copyassign";
      else if (MD->isMoveAssignmentOperator())
        m["kind"] = "moveassign";
      json::Array pt;
      for (auto *P : MD->parameters())
        pt.push_back(S(typeStr(P->getType())));
      m["params"] = std::move(pt);
      json::Array ov;
      for (auto *O : MD->overridden_methods())
        ov.push_back(S(fnKey(O)));
      if (!ov.empty())
        m["over"] = std::move(ov);
      methods.push_back(std::move(m));
    }
    ro["methods"] = std::move(methods);
    // type traits that the witnesses use
    if (RD->hasDefinition())
    {
      ro["copy_constructible"] = !RD->defaultedCopyConstructorIsDeleted() &&
                                 (RD->hasSimpleCopyConstructor() || RD->hasUserDeclaredCopyConstructor());
      ro["trivially_copyable"] = RD->isTriviallyCopyable();
    }
    records.push_back(std::move(ro));
  }

  // ---------------------------------------------------------------- globals
  void lowerGlobal(const VarDecl *VD)
  {
    if (!VD->hasGlobalStorage() || VD->isLocalVarDecl() == false ? false : false)
      return;
  }

  void lowerVar(const VarDecl *VD)
  {
    if (isa<ParmVarDecl>(VD))
      return;
    if (!VD->hasGlobalStorage())
      return;
    if (VD->getDeclContext()->isDependentContext())
      return;
    if (!inScope(VD->getLocation()))
      return;
    const VarDecl *Def = VD->getDefinition();
    if (!Def)
      Def = VD;
    if (!seenVars.insert(Def->getCanonicalDecl()).second)
      return;
    json::Object go;
    go["qn"]   = S(qname(Def));
    go["name"] = S(Def->getNameAsString());
    go["t"]    = S(typeStr(Def->getType()));
    go["file"] = S(fileOf(Def->getLocation()));
    go["line"] = static_cast<int64_t>(lineOf(Def->getLocation()));
    go["id"]   = varId(Def);
    if (Def->getTLSKind() != VarDecl::TLS_None)
      go["storage"] = "thread";
    else
      go["storage"] = "static";
    if (Def->isStaticLocal())
      go["static_local"] = true;
    if (auto *PF = dyn_cast_or_null<FunctionDecl>(Def->getParentFunctionOrMethod()))
      go["in_fn"] = S(fnKey(PF));
    if (Def->isConstexpr())
      go["constexpr"] = true;
    if (Def->getType().isConstQualified())
      go["const"] = true;
    const Expr *Init = Def->getAnyInitializer();
    if (Init && !Init->isValueDependent())
    {
      const Expr *IS = Init->IgnoreParenImpCasts();
      if (auto *SL = dyn_cast<clang::StringLiteral>(IS))
      {
        if (SL->getCharByteWidth() == 1)
          go["str"] = S(SL->getBytes());
      }
      else if (Def->getType().isConstQualified() || Def->isConstexpr())
      {
        if (const APValue *V = Def->evaluateValue())
        {
          if (V->isInt())
            go["v"] = V->getInt().getExtValue();
          else if (V->isFloat())
            go["fv"] = V->getFloat().convertToDouble();
          else if (V->isArray())
          {
            json::Array a;
            bool ok    = true;
            unsigned n = V->getArraySize(), ni = V->getArrayInitializedElts();
            for (unsigned i = 0; i < n && ok; ++i)
            {
              const APValue &E = i < ni ? V->getArrayInitializedElt(i)
                                        : (V->hasArrayFiller() ? V->getArrayFiller() : *V);
              if (E.isInt())
                a.push_back(E.getInt().getExtValue());
              else
                ok = false;
            }
            if (ok)
              go["arr"] = std::move(a);
          }
        }
        // string_view-like constants initialised from a literal: keep the literal
        if (!go.get("v") && !go.get("arr"))
        {
          struct Finder : RecursiveASTVisitor<Finder>
          {
            const clang::StringLiteral *SL = nullptr;
            bool VisitStringLiteral(clang::StringLiteral *L)
            {
              if (!SL)
                SL = L;
              return true;
            }
          } Fd;
          Fd.TraverseStmt(const_cast<Expr *>(Init));
          if (Fd.SL && Fd.SL->getCharByteWidth() == 1)
            go["str"] = S(Fd.SL->getBytes());
        }
      }
    }
    globals.push_back(std::move(go));
  }

  void lowerAlias(const TypedefNameDecl *TD)
  {
    if (!inScope(TD->getLocation()))
      return;
    if (TD->getDeclContext()->isDependentContext())
      return;
    QualType U = TD->getUnderlyingType();
    if (U.isNull() || U->isDependentType())
      return;
    json::Object ao;
    ao["qn"] = S(qname(TD));
    ao["t"]  = S(typeStr(U));
    if (auto *RT = U.getCanonicalType()->getAs<RecordType>())
      if (auto *SD = dyn_cast<ClassTemplateSpecializationDecl>(RT->getDecl()))
      {
        json::Array a;
        auto &L = SD->getTemplateArgs();
        std::function<void(const TemplateArgument &)> add = [&](const TemplateArgument &A) {
          if (A.getKind() == TemplateArgument::Pack)
          {
            for (auto &P : A.pack_elements())
              add(P);
            return;
          }
          std::string s;
          llvm::raw_string_ostream os(s);
          if (A.getKind() == TemplateArgument::Type)
            os << typeStr(A.getAsType());
          else
            A.print(PP, os, true);
          os.flush();
          a.push_back(S(s));
        };
        for (unsigned i = 0; i < L.size(); ++i)
          add(L.get(i));
        ao["targs"] = std::move(a);
      }
    aliases.push_back(std::move(ao));
  }
};

class Visitor : public RecursiveASTVisitor<Visitor>
{
public:
  explicit Visitor(Extractor &E) : X(E) {}
  bool shouldVisitTemplateInstantiations() const { return true; }
  bool shouldVisitImplicitCode() const { return false; }

  bool VisitFunctionDecl(FunctionDecl *FD)
  {
    X.lowerFunction(FD);
    return true;
  }
  bool VisitLambdaExpr(LambdaExpr *LE)
  {
    if (LE->getCallOperator() && !LE->getCallOperator()->isDependentContext())
      X.lowerFunction(LE->getCallOperator());
    if (auto *FT = LE->getDependentCallOperator())
      for (auto *Sp : FT->specializations())
        X.lowerFunction(Sp);
    return true;
  }
  bool VisitCXXRecordDecl(CXXRecordDecl *RD)
  {
    X.lowerRecord(RD);
    return true;
  }
  bool VisitVarDecl(VarDecl *VD)
  {
    X.lowerVar(VD);
    return true;
  }
  bool VisitTypedefNameDecl(TypedefNameDecl *TD)
  {
    X.lowerAlias(TD);
    return true;
  }

private:
  Extractor &X;
};

class Consumer : public ASTConsumer
{
public:
  void HandleTranslationUnit(ASTContext &Ctx) override
  {
    if (Ctx.getDiagnostics().hasUncompilableErrorOccurred())
    {
      llvm::errs() << "otel-ir: parse errors, no IR written\n";
      return;
    }
    Extractor X(Ctx);
    Visitor V(X);
    V.TraverseDecl(Ctx.getTranslationUnitDecl());
    // lambdas whose generic call operators were instantiated after the first visit are picked
    // up by VisitLambdaExpr via specializations(); nothing else to do.

    std::error_code EC;
    std::string tmp = OutFile + ".tmp";
    {
      llvm::raw_fd_ostream OS(tmp, EC);
      if (EC)
      {
        llvm::errs() << "otel-ir: cannot write " << tmp << "\n";
        return;
      }
      json::Object root;
      json::Array ss;
      for (auto &s : X.strs)
        ss.push_back(json::fixUTF8(s));
      auto &SMgr   = Ctx.getSourceManager();
      root["unit"] = SMgr.getFileEntryForID(SMgr.getMainFileID())
                         ? SMgr.getFileEntryForID(SMgr.getMainFileID())->getName().str()
                         : "";
      root["strs"]      = std::move(ss);
      root["functions"] = std::move(X.functions);
      root["records"]   = std::move(X.records);
      root["globals"]   = std::move(X.globals);
      root["aliases"]   = std::move(X.aliases);
      OS << json::Value(std::move(root));
    }
    llvm::sys::fs::rename(tmp, OutFile);
  }
};

class Action : public ASTFrontendAction
{
public:
  std::unique_ptr<ASTConsumer> CreateASTConsumer(CompilerInstance &, llvm::StringRef) override
  {
    return std::make_unique<Consumer>();
  }
};

}  // namespace

int main(int argc, const char **argv)
{
  auto Exp = CommonOptionsParser::create(argc, argv, Cat);
  if (!Exp)
  {
    llvm::errs() << llvm::toString(Exp.takeError());
    return 2;
  }
  ClangTool Tool(Exp->getCompilations(), Exp->getSourcePathList());
  int rc = Tool.run(newFrontendActionFactory<Action>().get());
  return rc == 0 ? 0 : 2;
}
