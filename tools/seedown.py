#!/usr/bin/env python3
"""tools/seedown.py [prefix]: run every seeded change against its OWN check only (scratch copies; /repo untouched) and print one
line per seed: the rules that fire, or MISSED / exit 2. A quick regression over the whole seed corpus after rule changes
(tools/seedmatrix.py is the full seeds x checks matrix). Writes seeded/OWN_RESULTS.md."""
import concurrent.futures
import json
import os
import re
import shutil
import subprocess
import sys
import tempfile

VERIF = os.path.dirname(os.path.dirname(os.path.abspath(__file__)))
# seeds that are recorded misses on purpose (vendored third-party code, outside the analysed scope; DESIGN.md section 8)
EXPECTED_MISS = {'C20_3', 'C20c_3', 'C20d_2'}


def run_seed(name):
    d = os.path.join(VERIF, 'seeded', name)
    own = name[:3]
    s = tempfile.mkdtemp(prefix='otel-scratch.')
    try:
        subprocess.check_call('cd /repo && tar cf - --exclude=third_party api sdk exporters ext | tar xf - -C %s' % s, shell=True)
        p = subprocess.run(['patch', '-p1', '-s', '--no-backup-if-mismatch', '-i', os.path.join(d, 'patch.diff')], cwd=s, capture_output=True, text=True)
        if p.returncode != 0:
            return name, None, 'patch does not apply'
        os.makedirs(os.path.join(s, '.evidence'))
        env = dict(os.environ, OTEL_REPO=s, VERIF_EVIDENCE_DIR=os.path.join(s, '.evidence'), VERIF_JOBS=os.environ.get('VERIF_JOBS', '3'))
        r = subprocess.run([os.path.join(VERIF, 'check'), own], env=env, capture_output=True, text=True)
        rules = sorted(set(re.findall(r'violation: rule=(\S+)', r.stdout)))
        return name, r.returncode, ','.join(rules)
    finally:
        shutil.rmtree(s, ignore_errors=True)


def main():
    pref = sys.argv[1] if len(sys.argv) > 1 else ''
    seeds = sorted(x for x in os.listdir(os.path.join(VERIF, 'seeded')) if re.match(r'C\d+[a-z]?_\d+$', x) and x.startswith(pref))
    rows = []
    with concurrent.futures.ThreadPoolExecutor(max_workers=int(os.environ.get('MATRIX_WORKERS', '4'))) as ex:
        for (name, rc, rules) in ex.map(run_seed, seeds):
            title = ''
            try:
                title = json.load(open(os.path.join(VERIF, 'seeded', name, 'meta.json'))).get('title', '')
            except (OSError, ValueError):
                pass
            st = ('rule=' + rules) if rc == 1 and rules else ('exit 2 (analysis broken / incomplete)' if rc == 2 else ('**missed**' if rc == 0 else str(rules)))
            if rc == 0 and name in EXPECTED_MISS:
                st = 'missed (recorded: outside the analysed scope)'
            rows.append((name, title, st))
            print('%-9s %s' % (name, st))
            sys.stdout.flush()
    if not pref:
        with open(os.path.join(VERIF, 'seeded', 'OWN_RESULTS.md'), 'w') as fh:
            fh.write('# Every seeded change against its own check (current rules)\n\nWritten by `tools/seedown.py`. First-contact (hold-out) results are in HOLDOUT_WAVE*.md; this table is the state after strengthening.\n\n| seed | title | own check |\n|---|---|---|\n')
            for (n, t, st) in rows:
                fh.write('| %s | %s | %s |\n' % (n, t.replace('|', '/')[:110], st))
            det = sum(1 for r in rows if r[2].startswith('rule='))
            fh.write('\n%d of %d seeded changes are reported by their own check; %d end in exit 2; %d missed.\n' % (
                det, len(rows), sum(1 for r in rows if r[2].startswith('exit 2')), sum(1 for r in rows if 'missed' in r[2])))
    bad = [r for r in rows if not r[2].startswith('rule=') and r[0] not in EXPECTED_MISS]
    print('%d seeds, %d not reported by their own check: %s' % (len(rows), len(bad), ' '.join(r[0] for r in bad)))


if __name__ == '__main__':
    main()
