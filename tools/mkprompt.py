#!/usr/bin/python3
"""tools/mkprompt.py <Cnn> <suffix>: write /tmp/wt/prompt-<Cnn><suffix>.txt for a seeding sub-agent: the property text only, plus the
titles of the seeded changes already taken for that property (so that a new wave finds different ones). Nothing from the checks."""
import json, os, sys
pid, suf = sys.argv[1], sys.argv[2]
props = {}
for line in open('/verif/properties.jsonl'):
    d = json.loads(line)
    props[d['id']] = d
d = props[pid]
anch = d['anchors']
prop = 'Property %s: %s\n\nStatement: %s\n\nQuantified over: %s\n\nCode areas involved: %s\n' % (
    pid, d['title'], d['statement'], d['quantifier']['text'], ', '.join(anch.get('files', [])))
tmpl = open('/verif/tools/PROMPT.tmpl').read()
ident = pid + suf
txt = tmpl.replace('@ID@', ident).replace('@PROP@', prop)
txt = txt.replace('"property": "%s"' % ident, '"property": "%s"' % pid)
taken = []
for s in sorted(os.listdir('/verif/seeded')):
    m = os.path.join('/verif/seeded', s, 'meta.json')
    if s.startswith(pid) and os.path.exists(m):
        taken.append(json.load(open(m)).get('title', ''))
if taken:
    block = 'ALREADY TAKEN - earlier rounds produced these bugs; do NOT repeat them or close variants of them, find different ones (other clauses, other functions, other mechanisms):\n' + ''.join('  - %s\n' % t for t in taken) + '\n'
    txt = txt.replace('RULES: never commit', block + 'RULES: never commit')
open('/tmp/wt/prompt-%s.txt' % ident, 'w').write(txt)
print('/tmp/wt/prompt-%s.txt' % ident, len(taken), 'taken')
