#!/bin/sh
# tools/benign_eval.sh [dir prefix]: run every check on every stored benign refactoring (benign_wave/*/patch.diff); any output line is a false alarm
cd "$(dirname "$0")/.."
for d in benign_wave/${1:-}*/; do
  p=$d/patch.diff; [ -f $p ] || continue
  out=$(tools/mutant.sh $p C01 C02 C03 C04 C05 C06 C07 C08 C09 C10 C11 C12 C13 C14 C15 C16 C17 C18 C19 C20 2>&1 | grep "violation:\|INCOMPL\|BROKEN\|PATCH" | cut -c1-240)
  if [ -z "$out" ]; then echo "ok    $(basename $d)"; else echo "ALARM $(basename $d)"; echo "$out" | sed 's/^/        /'; fi
done
echo DONE
