#!/usr/bin/env python3
"""tools/collect_seed.py <id>: copy the verified seeded bugs of /tmp/wt/out-<id>/<n>/ into /verif/seeded/<id>_<n>/"""
import json, os, shutil, sys
pid = sys.argv[1]
src = '/tmp/wt/out-%s' % pid
for n in sorted(os.listdir(src)):
    d = os.path.join(src, n)
    if not (n.isdigit() and os.path.exists(os.path.join(d, 'patch.diff'))):
        continue
    v = os.path.join(d, 'verify.txt')
    if not os.path.exists(v):
        print('skip %s/%s: not verified' % (pid, n)); continue
    vt = open(v).read()
    ok = 'demo_clean_exit=0' in vt and 'build=OK' in vt and 'demo_bug_exit=' in vt and 'demo_bug_exit=0' not in vt and 'apply=FAIL' not in vt
    failed = [l for l in vt.splitlines() if ' - ' in l and 'Failed' in l]
    if failed:
        ok = False
    if not ok:
        print('REJECT %s/%s:\n%s' % (pid, n, vt)); continue
    dst = os.path.join('/verif/seeded', '%s_%s' % (pid, n))
    os.makedirs(dst, exist_ok=True)
    for fn in os.listdir(d):
        if fn in ('patch.diff', 'build.sh', 'meta.json') or fn.startswith('demo') and fn.endswith(('.cc', '.h', '.cpp')):
            shutil.copy(os.path.join(d, fn), dst)
    meta = json.load(open(os.path.join(dst, 'meta.json')))
    meta['property'] = pid[:3]
    meta['wave'] = {'b': 2, 'c': 3, 'd': 4, 'e': 5}.get(pid[3:4], 1)
    meta['confirmed_by_main_session'] = {
        'how': 'tools/verify_seed.sh %s: in a scratch worktree of /repo HEAD: demo on clean build; git apply patch.diff; ninja; ctest -j8; demo again' % pid,
        'result': vt.strip().splitlines(),
    }
    json.dump(meta, open(os.path.join(dst, 'meta.json'), 'w'), indent=1)
    print('kept %s' % dst)
