#!/usr/bin/env python3
"""Run every check against every seeded change (scratch copies; /repo untouched) and write seeded/RESULTS.md + results.json.
usage: tools/seedmatrix.py [seed-name-prefix]"""
import concurrent.futures
import json
import os
import re
import shutil
import subprocess
import sys
import tempfile

VERIF = os.path.dirname(os.path.dirname(os.path.abspath(__file__)))
IDS = ['C%02d' % i for i in range(1, 21)]


def run_seed(name):
    d = os.path.join(VERIF, 'seeded', name)
    patch = os.path.join(d, 'patch.diff')
    own = name.split('_')[0][:3]
    s = tempfile.mkdtemp(prefix='otel-scratch.')
    res = {'seed': name, 'property': own, 'hits': {}, 'apply': True}
    try:
        subprocess.check_call('cd /repo && tar cf - --exclude=third_party api sdk exporters ext | tar xf - -C %s' % s, shell=True)
        p = subprocess.run(['patch', '-p1', '-s', '--no-backup-if-mismatch', '-i', patch], cwd=s, capture_output=True, text=True)
        if p.returncode != 0:
            res['apply'] = False
            return res
        os.makedirs(os.path.join(s, '.evidence'))
        env = dict(os.environ, OTEL_REPO=s, VERIF_EVIDENCE_DIR=os.path.join(s, '.evidence'), VERIF_JOBS=os.environ.get('VERIF_JOBS', '3'))
        # which checks could be affected: all whose units include a touched file is hard to know -> run all, own first
        touched = re.findall(r'^\+\+\+ b/(\S+)', open(patch).read(), re.M)
        res['files'] = touched
        for pid in [own] + [i for i in IDS if i != own]:
            r = subprocess.run([os.path.join(VERIF, 'check'), pid], env=env, capture_output=True, text=True)
            rules = sorted(set(re.findall(r'violation: rule=(\S+)', r.stdout)))
            if r.returncode == 1 and rules:
                res['hits'][pid] = rules
            elif r.returncode == 2:
                res['hits'][pid] = ['ANALYSIS-BROKEN']
        return res
    finally:
        shutil.rmtree(s, ignore_errors=True)


def main():
    pref = sys.argv[1] if len(sys.argv) > 1 else ''
    seeds = sorted(x for x in os.listdir(os.path.join(VERIF, 'seeded')) if re.match(r'C\d+[a-z]?_', x) and x.startswith(pref))
    out = []
    with concurrent.futures.ThreadPoolExecutor(max_workers=int(os.environ.get('MATRIX_WORKERS', '4'))) as ex:
        for r in ex.map(run_seed, seeds):
            out.append(r)
            own = r['hits'].get(r['property'])
            print('%-9s own=%-28s others=%s' % (r['seed'], ','.join(own) if own else '-', {k: v for k, v in r['hits'].items() if k != r['property']} or ''))
            sys.stdout.flush()
    rp = os.path.join(VERIF, 'seeded', 'results.json')
    old = {}
    if os.path.exists(rp):
        old = {x['seed']: x for x in json.load(open(rp))}
    for r in out:
        old[r['seed']] = r
    json.dump(sorted(old.values(), key=lambda x: x['seed']), open(rp, 'w'), indent=1)
    rows = sorted(old.values(), key=lambda x: x['seed'])
    with open(os.path.join(VERIF, 'seeded', 'RESULTS.md'), 'w') as fh:
        fh.write('# Seeded changes vs. checks\n\nEvery seeded change (independent sub-agents, verified: builds, ctest passes, demo fails only with the change) applied to a scratch copy of the sources; every `./check Cnn` run on it. "own" = the check of the property the change was written against.\n\n')
        fh.write('| seed | title | own check fires (rules) | other checks that fire |\n|---|---|---|---|\n')
        det = 0
        for r in rows:
            meta = {}
            try:
                meta = json.load(open(os.path.join(VERIF, 'seeded', r['seed'], 'meta.json')))
            except Exception:
                pass
            own = r['hits'].get(r['property'])
            others = {k: v for k, v in r['hits'].items() if k != r['property']}
            if own or others:
                det += 1
            fh.write('| %s | %s | %s | %s |\n' % (r['seed'], (meta.get('title') or '')[:110].replace('|', '/'), ', '.join(own) if own else ('**missed**' if not others else '-'),
                                                 '; '.join('%s: %s' % (k, ','.join(v)) for k, v in sorted(others.items())) or ''))
        fh.write('\nDetected by at least one check: %d of %d.\n' % (det, len(rows)))
    print('wrote seeded/RESULTS.md')


if __name__ == '__main__':
    main()
