#!/bin/sh
# tools/mutant.sh <patch.diff> <property id>...   : apply a patch to a scratch copy of the sources and run checks on it
# (never touches /repo; the scratch copy is removed afterwards)
set -e
patch="$(readlink -f "$1")"; shift
here="$(cd "$(dirname "$0")/.." && pwd)"
S="$(mktemp -d /tmp/otel-scratch.XXXXXX)"
trap 'rm -rf "$S"' EXIT
( cd /repo && tar cf - --exclude=third_party api sdk exporters ext ) | tar xf - -C "$S"
mkdir -p "$S/.evidence"
( cd "$S" && patch -p1 -s --no-backup-if-mismatch < "$patch" ) || { echo "PATCH-FAILED"; exit 3; }
rc=0
for id in "$@"; do
  VERIF_EVIDENCE_DIR="$S/.evidence" OTEL_REPO="$S" "$here/check" "$id" --tier "${TIER:-quick}" | grep -E "VIOLATION|violation:|ANALYSIS|KNOWN|: (OK|VIOLATION|ANALYSIS-BROKEN) " | sed "s#$S/##g" || true
done
