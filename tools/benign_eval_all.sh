#!/bin/sh
# tools/benign_eval_all.sh [workers]: evaluate the whole benign corpus in parallel (one benign_eval.sh per property prefix); the
# per-prefix logs go to $OUT (default /tmp/wt/benign_all), a summary line per patch is printed at the end
cd "$(dirname "$0")/.."
OUT=${OUT:-/tmp/wt/benign_all}; mkdir -p "$OUT"
ls benign_wave | sed 's/_[0-9]*$//' | sort -u | xargs -P "${1:-4}" -I{} sh -c "VERIF_JOBS=3 tools/benign_eval.sh {}_ > $OUT/{}.log 2>&1"
cat "$OUT"/*.log | grep -v "^DONE" 
