#!/usr/bin/env python3
"""tools/mkmutant.py <out.patch> <repo-relative file> <old> <new> [count]  -- make a one-site patch against /repo"""
import difflib, sys
out, rel, old, new = sys.argv[1:5]
s = open('/repo/' + rel).read()
if s.count(old) < 1:
    sys.exit('pattern not found in %s: %r' % (rel, old))
t = s.replace(old, new, 1)
d = difflib.unified_diff(s.splitlines(True), t.splitlines(True), 'a/' + rel, 'b/' + rel)
open(out, 'w').write(''.join(d))
