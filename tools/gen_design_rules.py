#!/usr/bin/python3
"""tools/gen_design_rules.py: regenerate the per-property part of DESIGN.md (between the GENERATED markers) from the rule modules
and the evidence files of the last run on /repo (run every ./check first). Keeps the document in step with what is armed."""
import importlib, json, os, re, sys
VERIF = os.path.dirname(os.path.dirname(os.path.abspath(__file__)))
sys.path.insert(0, VERIF)
props = [json.loads(l) for l in open(os.path.join(VERIF, 'properties.jsonl'))]
kf = json.load(open(os.path.join(VERIF, 'known_findings.json')))
out = []
tot_obl = tot_rules = 0
for p in props:
    pid = p['id']
    mod = importlib.import_module('sa.rules.' + pid.lower())
    ev = json.load(open(os.path.join(VERIF, 'evidence', pid + '.json')))['coverage']
    out.append('### %s — %s\n' % (pid, p['title']))
    units = [u for u in getattr(mod, 'UNITS', [])] + ['/verif/tu/' + d for d in getattr(mod, 'DRIVERS', [])]
    out.append('Units (quick tier): %s. Canaries: %s.\n' % (', '.join('`%s`' % u.rsplit('/', 1)[-1] for u in units) or '—',
               ', '.join('`%s`' % c for c in getattr(mod, 'CANARIES', [])) or '—'))
    out.append('**Decided.** %s\n' % mod.EXPLANATION.strip())
    out.append('**Not decided.** %s\n' % mod.NOT_DECIDED.strip())
    out.append('| rule | obligation | instances on this tree | hold | known finding | minimum |')
    out.append('|---|---|---|---|---|---|')
    per = {}
    for s in ev['samples']:
        r = per.setdefault(s['rule'], {'n': 0, 'h': 0, 'k': 0})
        r['n'] += 1
        if s['verdict'] == 'HOLDS':
            r['h'] += 1
        elif s['verdict'] in ('KNOWN', 'KNOWN-FINDING') or s.get('known'):
            r['k'] += 1
    mins = getattr(mod, 'MINS', {})
    for rid, text in sorted(ev['rules'].items(), key=lambda kv: (not kv[0].startswith(pid), kv[0])):
        n = ev['instances_per_rule'].get(rid, 0)
        r = per.get(rid, {'n': n, 'h': 0, 'k': 0})
        out.append('| %s | %s | %d | %d | %s | %s |' % (rid, text.replace('|', '\\|'), n, r['h'], (n - r['h']) or '', ev.get('instance_minimums', {}).get(rid, '')))
        tot_obl += n
        tot_rules += 1
    kn = ev.get('known_findings_reported') or []
    if kn:
        out.append('\nKnown findings reported by this check: ' + '; '.join('%s `%s`' % (k.get('id', k.get('rule', '')), k.get('site', '')) if isinstance(k, dict) else str(k)[:160] for k in kn) + '.')
    out.append('\nMeasured on the last run: %d units, %d functions, %d obligations, %d canaries flagged, %.1f s.\n' % (
        len(ev['units_analysed']), ev['functions_analysed'], ev['obligations'], len(ev['canaries_flagged']), json.load(open(os.path.join(VERIF, 'evidence', pid + '.json')))['wall_s']))
text = '\n'.join(out)
hdr = 'Totals on this tree: %d rule families (shared rules counted once per property that runs them), %d obligations.\n\n' % (tot_rules, tot_obl)
dp = os.path.join(VERIF, 'DESIGN.md')
s = open(dp).read()
b, e = '<!-- BEGIN GENERATED RULES -->', '<!-- END GENERATED RULES -->'
if b in s and e in s:
    s = s[:s.index(b) + len(b)] + '\n' + hdr + text + '\n' + s[s.index(e):]
    open(dp, 'w').write(s)
    print('DESIGN.md updated: %d rules, %d obligations' % (tot_rules, tot_obl))
else:
    print(hdr + text)
