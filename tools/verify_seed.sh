#!/bin/sh
# tools/verify_seed.sh <property id> [worktree name]  -- re-verify every seeded bug an agent left in /tmp/wt/out-<id>/<n>/ using the
# agent's scratch worktree /tmp/wt/<id> (clean HEAD + _build). Writes /tmp/wt/out-<id>/<n>/verify.txt
id="$1"
wt=/tmp/wt/${2:-$id}
out=/tmp/wt/out-$id
cd "$wt" || exit 2
git checkout -q -- . 
ninja -C _build > /dev/null 2>&1
for d in "$out"/[0-9]*; do
  [ -f "$d/patch.diff" ] || continue
  v="$d/verify.txt"; : > "$v"
  git checkout -q -- .
  git apply --check "$d/patch.diff" 2>>"$v" || { echo "apply=FAIL" >> "$v"; continue; }
  ninja -C _build > /dev/null 2>&1
  ( cd "$d" && timeout 600 bash ./build.sh "$wt/_build" > "$d/demo_clean.log" 2>&1 ); echo "demo_clean_exit=$?" >> "$v"
  git apply "$d/patch.diff"
  if ninja -C _build > "$d/build_bug.log" 2>&1; then echo "build=OK" >> "$v"; else echo "build=FAIL" >> "$v"; git checkout -q -- .; continue; fi
  ctest --test-dir _build -j8 --timeout 900 > "$d/ctest_bug.log" 2>&1
  grep -E "tests passed|tests failed" "$d/ctest_bug.log" >> "$v"
  grep -E "^\s+[0-9]+ - " "$d/ctest_bug.log" | grep -v "ext.http.curl" >> "$v"
  ( cd "$d" && timeout 600 bash ./build.sh "$wt/_build" > "$d/demo_bug.log" 2>&1 ); echo "demo_bug_exit=$?" >> "$v"
  git checkout -q -- .
done
ninja -C _build > /dev/null 2>&1
echo "verified $id"
