#!/usr/bin/env python3
"""Run the self-test corpus: every selftest/mutants/cNN_rK_*.patch must make ./check CNN report a violation of
rule CNN.RK (exit 1); every selftest/benign/cNN_*.patch must leave ./check CNN at exit 0.
Works on scratch copies of /repo's sources (never touches /repo)."""
import concurrent.futures
import glob
import os
import re
import shutil
import subprocess
import sys
import tempfile

VERIF = os.path.dirname(os.path.dirname(os.path.abspath(__file__)))


def run_one(patch, benign):
    name = os.path.basename(patch)
    m = re.match(r'(c\d+)_(r\d+[a-z]?)?', name)
    pid = m.group(1).upper()
    rule = (pid + '.' + m.group(2).upper()) if (m.group(2) and not benign) else None
    s = tempfile.mkdtemp(prefix='otel-scratch.')
    try:
        subprocess.check_call('cd /repo && tar cf - --exclude=third_party api sdk exporters ext | tar xf - -C %s' % s, shell=True)
        p = subprocess.run(['patch', '-p1', '-s', '--no-backup-if-mismatch', '-i', patch], cwd=s, capture_output=True, text=True)
        if p.returncode != 0:
            return name, False, 'patch does not apply: ' + p.stdout[-200:]
        os.makedirs(os.path.join(s, '.evidence'))
        env = dict(os.environ, OTEL_REPO=s, VERIF_EVIDENCE_DIR=os.path.join(s, '.evidence'))
        r = subprocess.run([os.path.join(VERIF, 'check'), pid], env=env, capture_output=True, text=True)
        out = r.stdout
        if benign:
            ok = r.returncode == 0
            return name, ok, 'exit %d' % r.returncode + ('' if ok else '\n' + '\n'.join(l for l in out.splitlines() if 'iolation' in l or 'ANALYSIS' in l)[:1500])
        viol = [l for l in out.splitlines() if l.strip().startswith('violation:')]
        hit = [l for l in viol if rule is None or ('rule=' + rule + ' ') in l]
        ok = r.returncode == 1 and bool(hit)
        return name, ok, 'exit %d, %d violation line(s), %d of rule %s' % (r.returncode, len(viol), len(hit), rule) + \
            ('' if ok else '\n' + '\n'.join(l for l in out.splitlines() if 'iolation' in l or 'ANALYSIS' in l)[:1500])
    finally:
        shutil.rmtree(s, ignore_errors=True)


def main():
    pref = sys.argv[1] if len(sys.argv) > 1 else ''
    jobs = []
    for p in sorted(glob.glob(os.path.join(VERIF, 'selftest', 'mutants', pref + '*.patch'))):
        jobs.append((p, False))
    for p in sorted(glob.glob(os.path.join(VERIF, 'selftest', 'benign', pref + '*.patch'))):
        jobs.append((p, True))
    bad = 0
    with concurrent.futures.ThreadPoolExecutor(max_workers=int(os.environ.get('VERIF_SELFTEST_WORKERS') or 8)) as ex:
        for name, ok, msg in ex.map(lambda j: run_one(*j), jobs):
            print('%-8s %-55s %s' % ('ok' if ok else 'FAIL', name, msg))
            if not ok:
                bad += 1
    print('%d/%d self-tests passed' % (len(jobs) - bad, len(jobs)))
    return 1 if bad else 0


if __name__ == '__main__':
    sys.exit(main())
