#!/usr/bin/env python3
"""Regenerate MANIFEST.json from the rule modules present in sa/rules (keeps it valid and in sync)."""
import importlib
import json
import os
import sys

VERIF = os.path.dirname(os.path.dirname(os.path.abspath(__file__)))
sys.path.insert(0, VERIF)

# properties not claimed: id -> reason  (kept current by hand)
NOT_APPLICABLE = {}
PENDING = 'static rules designed in DESIGN.md §4 but not yet armed in this tree; not claimed until the check exists'

# the deciding method of each check, named per property (rule kinds of DESIGN.md §3)
TECHNIQUE = {
 'C01': 'typestate over the CFG of the producer entry and the consume callback (enqueue/take exactly once), effect exclusion over the whole-program call graph (no blocking leaf reachable from OnEnd/OnEmit), reaching-definition dependence of the consumed count',
 'C02': 'dominance / post-dominance on the element-level flow graph (ticket before snapshot, publish after export, join before exporter shutdown), three-valued aggregation walk (no true after a false child), fan-out completeness by loop flow-graph query, who-may-call over the call graph, blocking-leaf effect table (timed waits only)',
 'C03': 'lock-set dataflow at Export call sites, who-may-call by call-graph reachability from the single worker entry, reaching-definition bound analysis of the batch count over linear forms, guard dominance (non-empty before Export)',
 'C04': 'lock-set + null-edge dominance at every recordable use, typestate of End, interface/fan-out completeness over sibling overriders, type-level ownership facts of recordable fields, parameter-forwarding dataflow of every setter',
 'C05': 'bit-level provenance dataflow of the trace-flags byte, decision table by pinning for parent precedence, source (origin) dependence of ids and trace state, thread-storage type facts',
 'C06': 'lock-field association dataflow on record/collect, forwarding of every instrument overload, fan-out completeness, Merge/Diff orientation by scenario tables, per-reader bookkeeping dependence',
 'C07': 'lock-set dataflow on Aggregate, comparator-domain and guard agreement over linear forms (inclusive upper bucket), sentinel constants, configuration forwarding to every CreateAggregation call site',
 'C08': 'type-level facts of the series key (sorted map), fold completeness of the hash over every key/value, equality compares contents, typestate of the cached hash, limit forwarding to every table, guard agreement of the overflow arithmetic, call-site discipline for string_view lookups',
 'C09': 'constant-bounded buffer partition (range analysis of subscripts), exhaustive 256-entry digit tables of writer and reader, region tables of the extraction guards over linear quantities, validity-gate dominance, no-mutable-static re-entrancy facts',
 'C10': 'who-may-write (no store into an existing Context or list node), thread-storage type facts, guard/shape obligations of Detach/Push/Resize as relations over pending counts, destructor typestate of Token and Scope, exact-key comparison in lookups',
 'C11': 'ownership typestate of Add/SwapIfNull/Swap/Reset, guard agreement over linear forms (fullness, capacity, slot, tail), minimum memory-order table per atomic operation, spin-lock return-only-when-acquired path obligations',
 'C12': 'dependence/effect analysis of ShouldSample (trace id and threshold only), exact extreme-ratio guards, interval analysis of the threshold arithmetic (carry rule), decision table by pinning for the parent-based sampler',
 'C13': 'type-level ownership facts of log recordables, correlation copies all identity fields (forwarding), gate dominance and order in EmitLogRecord, fan-out completeness, parameter-forwarding dataflow of every setter',
 'C14': 'who-may-write (no member writes this), validity-gate dominance before construction, copy-excludes-key and allocation-fits-copy relations, whole-key comparison, byte-set character classes, regex normal-form language equality with the W3C grammar',
 'C15': 'who-may-write, limit guards on the whole member (linear guard agreement), validity conjunction, encoder/decoder alphabets as exhaustive byte sets, context threading through the composite propagator (forwarding dataflow)',
 'C16': 'exhaustive table of the sampling field (256 bytes x length classes), constant-bounded buffer partition, validity-gate dominance before install, single-header precedence decision table, decode-result-checked-or-zero-filled sibling contract',
 'C17': 'lock-set dataflow on the callback registry, each-callback-once loop flow-graph query, removal predicate truth table, Observe-before-collect ordering, tie-break orientation scenario table, monotonicity/temporality decision tables over every enumerator',
 'C18': 'Merge orientation scenario table, Create chain order, out-parameter typestate of every environment reader, errno discipline typestate, overflow guards with exact tick ratios (linear guard agreement), resource forwarding to every signal',
 'C19': 'call-site discipline over resolved types (string_view::data into NUL-terminated APIs), gate dominance in Create*, decision tables of the view/meter matchers by pinning, first-match-wins by pinning, locked lookup-then-create lock-set dataflow, regex normal-form language equality',
 'C20': 'assignment typestate of shared_ptr/unique_ptr (source taken before release), who-may-write, type-level compile witnesses (static_assert batch, -fsyntax-only), length/compare guard agreement of string_view, hash dependence on characters only',
}


def main():
    ids = [json.loads(l)['id'] for l in open(os.path.join(VERIF, 'properties.jsonl'))]
    checks = []
    na = []
    served = []
    for pid in ids:
        if pid in NOT_APPLICABLE:
            na.append({'property_id': pid, 'reason': NOT_APPLICABLE[pid]})
            continue
        path = os.path.join(VERIF, 'sa', 'rules', pid.lower() + '.py')
        if not os.path.exists(path):
            na.append({'property_id': pid, 'reason': PENDING})
            continue
        mod = importlib.import_module('sa.rules.' + pid.lower())
        served.append(pid)
        checks.append({
            'property_id': pid,
            'quick_cmd': './check %s --tier quick' % pid,
            'thorough_cmd': './check %s --tier thorough' % pid,
            'evidence_file': '/verif/evidence/%s.json' % pid,
            'replay_cmd_template': './check %s --replay {path}' % pid,
            'engine': 'otel-sa',
            'level_claimed': {
                'category': 'other',
                'text': ('Static analysis (no execution, no solver). Decides, for every path / call site / sibling of the '
                         'configured build, these structural necessary conditions of %s: %s Does not decide: %s '
                         'A pass means no structural necessary condition of the property is broken, not that the '
                         'behavioural property holds in full.') % (pid, mod.EXPLANATION, mod.NOT_DECIDED),
                'design_ref': 'DESIGN.md §4 %s' % pid,
            },
            'level_note': ('Trusted base: clang 14 front end and CFG builder, the otel-ir extractor, the frozen idiom/effect '
                           'tables in /verif/sa, the configured preprocessor variant (ABI v1, nostd types, regex validators, '
                           'no preview features). Virtual calls into user-supplied exporters/samplers/handlers are opaque; '
                           'exceptional control flow is not modelled.'),
            'technique': 'static analysis over the clang 14 AST/CFG of /repo (no execution, no solver): ' + getattr(mod, 'TECHNIQUE', TECHNIQUE[pid]),
        })
    m = {
        'version': 1,
        'setup_cmd': './setup.sh',
        'hooks': {
            'guard': 'OTEL_CPP_VERIF',
            'enable': 'none needed: the analysis is external (clang 14 libTooling over /repo\'s sources); no hook is compiled into /repo',
            'baseline_off_cmd': 'ctest --test-dir /repo/_build -j8 --timeout 900',
            'source_commits': [],
            'add_only': True,
        },
        'engines': [{'name': 'otel-sa', 'path': '/verif/check', 'serves_properties': served,
                     'kind_free_text': 'repository-specific static analysis: libTooling extractor (AST+CFG -> JSON IR) + Python rule engine (dataflow, typestate, dominance, call graph)'}],
        'checks': checks,
        'not_applicable': na,
        'notes': ('Exit codes of ./check: 0 = every rule instance holds (known findings printed as KNOWN-FINDING), 1 = VIOLATION, '
                  '2 = analysis broken/incomplete (vanished anchor, fewer instances than confirmed by reading, canary not flagged). '
                  'Genuine defects repaired in /repo as fix: commits and recorded findings are listed in known_findings.json.'),
    }
    with open(os.path.join(VERIF, 'MANIFEST.json'), 'w') as fh:
        json.dump(m, fh, indent=1)
    print('MANIFEST: %d checks, %d not applicable' % (len(checks), len(na)))


if __name__ == '__main__':
    main()
