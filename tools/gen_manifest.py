#!/usr/bin/env python3
"""Regenerate MANIFEST.json from the rule modules present in sa/rules (keeps it valid and in sync)."""
import importlib
import json
import os
import sys

VERIF = os.path.dirname(os.path.dirname(os.path.abspath(__file__)))
sys.path.insert(0, VERIF)

# properties not claimed: id -> reason  (kept current by hand)
NOT_APPLICABLE = {}
PENDING = 'static rules designed in DESIGN.md §4 but not yet armed in this tree; not claimed until the check exists'


def main():
    ids = [json.loads(l)['id'] for l in open(os.path.join(VERIF, 'properties.jsonl'))]
    checks = []
    na = []
    served = []
    for pid in ids:
        if pid in NOT_APPLICABLE:
            na.append({'property_id': pid, 'reason': NOT_APPLICABLE[pid]})
            continue
        path = os.path.join(VERIF, 'sa', 'rules', pid.lower() + '.py')
        if not os.path.exists(path):
            na.append({'property_id': pid, 'reason': PENDING})
            continue
        mod = importlib.import_module('sa.rules.' + pid.lower())
        served.append(pid)
        checks.append({
            'property_id': pid,
            'quick_cmd': './check %s --tier quick' % pid,
            'thorough_cmd': './check %s --tier thorough' % pid,
            'evidence_file': '/verif/evidence/%s.json' % pid,
            'replay_cmd_template': './check %s --replay {path}' % pid,
            'engine': 'otel-sa',
            'level_claimed': {
                'category': 'other',
                'text': ('Static analysis (no execution, no solver). Decides, for every path / call site / sibling of the '
                         'configured build, these structural necessary conditions of %s: %s Does not decide: %s '
                         'A pass means no structural necessary condition of the property is broken, not that the '
                         'behavioural property holds in full.') % (pid, mod.EXPLANATION, mod.NOT_DECIDED),
                'design_ref': 'DESIGN.md §4 %s' % pid,
            },
            'level_note': ('Trusted base: clang 14 front end and CFG builder, the otel-ir extractor, the frozen idiom/effect '
                           'tables in /verif/sa, the configured preprocessor variant (ABI v1, nostd types, regex validators, '
                           'no preview features). Virtual calls into user-supplied exporters/samplers/handlers are opaque; '
                           'exceptional control flow is not modelled.'),
            'technique': getattr(mod, 'TECHNIQUE', 'repository-specific static analysis over clang AST/CFG: typestate, dominance, '
                                 'lock-set and reaching-definition dataflow, who-may-call over the call graph, guard agreement'),
        })
    m = {
        'version': 1,
        'setup_cmd': './setup.sh',
        'hooks': {
            'guard': 'OTEL_CPP_VERIF',
            'enable': 'none needed: the analysis is external (clang 14 libTooling over /repo\'s sources); no hook is compiled into /repo',
            'baseline_off_cmd': 'ctest --test-dir /repo/_build -j8 --timeout 900',
            'source_commits': [],
            'add_only': True,
        },
        'engines': [{'name': 'otel-sa', 'path': '/verif/check', 'serves_properties': served,
                     'kind_free_text': 'repository-specific static analysis: libTooling extractor (AST+CFG -> JSON IR) + Python rule engine (dataflow, typestate, dominance, call graph)'}],
        'checks': checks,
        'not_applicable': na,
        'notes': ('Exit codes of ./check: 0 = every rule instance holds (known findings printed as KNOWN-FINDING), 1 = VIOLATION, '
                  '2 = analysis broken/incomplete (vanished anchor, fewer instances than confirmed by reading, canary not flagged). '
                  'Genuine defects repaired in /repo as fix: commits and recorded findings are listed in known_findings.json.'),
    }
    with open(os.path.join(VERIF, 'MANIFEST.json'), 'w') as fh:
        json.dump(m, fh, indent=1)
    print('MANIFEST: %d checks, %d not applicable' % (len(checks), len(na)))


if __name__ == '__main__':
    main()
