#!/usr/bin/python3
"""tools/mkprompt_benign.py <Cnn> [suffix]: write /tmp/wt/prompt-<Cnn><suffix>.txt (suffix default 'n') for a sub-agent that writes
behaviour-preserving refactorings of the code a property is about (false-alarm measurement). The agent sees the property text and,
for later waves, the one-line titles of the refactorings already taken (so that it tries other kinds and other functions)."""
import glob, json, os, sys
pid = sys.argv[1]
suffix = sys.argv[2] if len(sys.argv) > 2 else 'n'
d = [json.loads(l) for l in open('/verif/properties.jsonl') if json.loads(l)['id'] == pid][0]
prop = 'Property %s: %s\n\nStatement: %s\n\nQuantified over: %s\n\nCode areas involved: %s\n' % (
    pid, d['title'], d['statement'], d['quantifier']['text'], ', '.join(d['anchors'].get('files', [])))
ident = pid + suffix
txt = open('/verif/tools/PROMPT_BENIGN.tmpl').read().replace('@ID@', ident).replace('@PID@', pid).replace('@PROP@', prop)
taken = []
for m in sorted(glob.glob('/verif/benign_wave/%s*_*/meta.json' % pid)):
    try:
        taken.append('  - ' + json.load(open(m))['title'][:260])
    except Exception:
        pass
if taken and suffix != 'n':
    txt = txt.replace('Spread the six patches over different functions/files of the listed code areas.',
                      'Spread the six patches over different functions/files of the listed code areas.\n\nALREADY TAKEN by an earlier round (do NOT repeat these; choose other functions and other kinds of rewrite, and prefer larger structural rewrites - splitting or merging functions, changing the loop / algorithm form, moving a decision into a table or a helper class, changing data-flow through locals - over cosmetic ones):\n' + '\n'.join(taken))
open('/tmp/wt/prompt-%s.txt' % ident, 'w').write(txt)
print('/tmp/wt/prompt-%s.txt' % ident, len(taken), 'taken')
