#!/usr/bin/python3
"""tools/mkprompt_benign.py <Cnn>: write /tmp/wt/prompt-<Cnn>n.txt for a sub-agent that writes behaviour-preserving refactorings of the
code a property is about (false-alarm measurement). The agent sees the property text only."""
import json, sys
pid = sys.argv[1]
d = [json.loads(l) for l in open('/verif/properties.jsonl') if json.loads(l)['id'] == pid][0]
prop = 'Property %s: %s\n\nStatement: %s\n\nQuantified over: %s\n\nCode areas involved: %s\n' % (
    pid, d['title'], d['statement'], d['quantifier']['text'], ', '.join(d['anchors'].get('files', [])))
ident = pid + 'n'
txt = open('/verif/tools/PROMPT_BENIGN.tmpl').read().replace('@ID@', ident).replace('@PID@', pid).replace('@PROP@', prop)
open('/tmp/wt/prompt-%s.txt' % ident, 'w').write(txt)
print('/tmp/wt/prompt-%s.txt' % ident)
