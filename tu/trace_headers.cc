// Driver unit: header-only SDK trace code named in the property anchors (parsed, never executed).
#include "opentelemetry/sdk/trace/simple_processor.h"
#include "opentelemetry/sdk/trace/multi_span_processor.h"
#include "opentelemetry/sdk/trace/multi_recordable.h"
#include "opentelemetry/sdk/trace/span_data.h"
#include "opentelemetry/sdk/common/circular_buffer.h"
#include "opentelemetry/sdk/common/atomic_unique_ptr.h"
#include "opentelemetry/sdk/trace/samplers/always_on.h"
#include "opentelemetry/sdk/trace/samplers/always_off.h"

template class opentelemetry::sdk::common::CircularBuffer<opentelemetry::sdk::trace::Recordable>;
template class opentelemetry::sdk::common::AtomicUniquePtr<opentelemetry::sdk::trace::Recordable>;
