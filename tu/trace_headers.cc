// Driver unit: header-only SDK trace code named in the property anchors (parsed, never executed).
#include "opentelemetry/sdk/trace/simple_processor.h"
#include "opentelemetry/sdk/trace/multi_span_processor.h"
#include "opentelemetry/sdk/trace/multi_recordable.h"
#include "opentelemetry/sdk/trace/span_data.h"
#include "opentelemetry/sdk/common/circular_buffer.h"
#include "opentelemetry/sdk/common/atomic_unique_ptr.h"
#include "opentelemetry/sdk/trace/samplers/always_on.h"
#include "opentelemetry/sdk/trace/samplers/always_off.h"

template class opentelemetry::sdk::common::CircularBuffer<opentelemetry::sdk::trace::Recordable>;
template class opentelemetry::sdk::common::AtomicUniquePtr<opentelemetry::sdk::trace::Recordable>;

#include <map>
#include <string>
#include <utility>
#include <vector>
#include "opentelemetry/trace/tracer.h"
namespace verif_tu
{
// instantiates every inline StartSpan overload of the API Tracer (C05.R6: each forwards all of its parameters)
inline void use_startspan_overloads(opentelemetry::trace::Tracer &t,
                                    const opentelemetry::trace::StartSpanOptions &o,
                                    const opentelemetry::common::KeyValueIterable &kv)
{
  namespace tr = opentelemetry::trace;
  std::map<std::string, std::string> attrs;
  std::vector<std::pair<tr::SpanContext, std::map<std::string, std::string>>> links;
  t.StartSpan("n", o);
  t.StartSpan("n", attrs, o);
  t.StartSpan("n", kv, o);
  t.StartSpan("n", attrs, links, o);
  t.StartSpan("n", {{"k", 1}}, o);
  t.StartSpan("n", attrs, {{tr::SpanContext::GetInvalid(), {{"k", 1}}}}, o);
  t.StartSpan("n", {{"k", 1}}, {{tr::SpanContext::GetInvalid(), {{"k", 1}}}}, o);
}
}  // namespace verif_tu
