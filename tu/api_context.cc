// Driver unit: header-only API context / trace-context code named in the property anchors.
#include "opentelemetry/context/context.h"
#include "opentelemetry/context/context_value.h"
#include "opentelemetry/context/runtime_context.h"
#include "opentelemetry/trace/context.h"
#include "opentelemetry/trace/noop.h"
#include "opentelemetry/trace/scope.h"
#include "opentelemetry/trace/span_context.h"
#include "opentelemetry/trace/trace_flags.h"
#include "opentelemetry/trace/tracer.h"

// The template members of Context (construction from / extension by a container of key-value pairs) have no instantiation in the
// library itself; they are instantiated here, with the container type the API tests and documentation use, so that the rules see
// their bodies.
#include <map>
#include <string>
namespace verif_c10_driver
{
using Map = std::map<std::string, opentelemetry::context::ContextValue>;
inline opentelemetry::context::Context Instantiate(Map &values, opentelemetry::context::Context &base)
{
  opentelemetry::context::Context fresh(values);
  (void)fresh;
  return base.SetValues(values);
}
}  // namespace verif_c10_driver
