// Driver unit: instantiates the API logger's argument dispatch for the documented argument types
// (parsed, never executed).
#include <chrono>
#include <map>
#include <string>
#include "opentelemetry/logs/logger.h"
#include "opentelemetry/logs/logger_type_traits.h"
#include "opentelemetry/logs/severity.h"
#include "opentelemetry/sdk/logs/multi_recordable.h"
#include "opentelemetry/sdk/logs/read_write_log_record.h"
#include "opentelemetry/trace/span_context.h"

namespace verif_tu
{
inline void logs_dispatch(opentelemetry::logs::Logger &logger,
                          const opentelemetry::trace::SpanContext &span_context,
                          const opentelemetry::common::KeyValueIterable &kv)
{
  std::map<std::string, std::string> attrs{{"k", "v"}};
  logger.EmitLogRecord(opentelemetry::logs::Severity::kInfo, opentelemetry::nostd::string_view("body"), span_context,
                       opentelemetry::common::SystemTimestamp(std::chrono::system_clock::now()), attrs, kv);
  logger.EmitLogRecord(opentelemetry::logs::Severity::kWarn, opentelemetry::logs::EventId(7, "evt"),
                       span_context.trace_id(), span_context.span_id(), span_context.trace_flags(),
                       std::chrono::system_clock::now(), opentelemetry::common::AttributeValue(int64_t(3)));
}
}  // namespace verif_tu
