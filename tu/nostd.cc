// Driver unit: nostd vocabulary types (parsed, never executed); instantiates the members the rules inspect.
#include <string>
#include "opentelemetry/nostd/function_ref.h"
#include "opentelemetry/nostd/shared_ptr.h"
#include "opentelemetry/nostd/span.h"
#include "opentelemetry/nostd/string_view.h"
#include "opentelemetry/nostd/unique_ptr.h"
#include "opentelemetry/nostd/utility.h"
#include "opentelemetry/nostd/variant.h"
namespace verif_tu
{
struct Obj
{
  int v;
};
}  // namespace verif_tu
template class opentelemetry::nostd::shared_ptr<verif_tu::Obj>;
template class opentelemetry::nostd::unique_ptr<verif_tu::Obj>;
template class opentelemetry::nostd::span<int>;
template class opentelemetry::nostd::span<int, 4>;
