// Driver unit: nostd vocabulary types (parsed, never executed); instantiates the members the rules inspect.
#include <string>
#include "opentelemetry/nostd/function_ref.h"
#include "opentelemetry/nostd/shared_ptr.h"
#include "opentelemetry/nostd/span.h"
#include "opentelemetry/nostd/string_view.h"
#include "opentelemetry/nostd/unique_ptr.h"
#include "opentelemetry/nostd/utility.h"
#include "opentelemetry/nostd/variant.h"
namespace verif_tu
{
struct Obj
{
  int v;
};
}  // namespace verif_tu
template class opentelemetry::nostd::shared_ptr<verif_tu::Obj>;
template class opentelemetry::nostd::unique_ptr<verif_tu::Obj>;
template class opentelemetry::nostd::span<int>;
template class opentelemetry::nostd::span<int, 4>;

#include <functional>
#include <memory>
namespace verif_tu
{
struct Base
{
  virtual ~Base() {}
};
struct Derived : Base
{};
// instantiates every assignment overload of nostd::unique_ptr (same type, converting, from std::unique_ptr, nullptr)
inline void use_unique_conversions(opentelemetry::nostd::unique_ptr<Base> &b,
                                   opentelemetry::nostd::unique_ptr<Base> &&b2,
                                   opentelemetry::nostd::unique_ptr<Derived> &&d,
                                   std::unique_ptr<Derived> &&sd)
{
  b = std::move(b2);
  b = std::move(d);
  b = std::move(sd);
  b = nullptr;
  b.reset();
  b.swap(b2);
  (void)b.release();
}
inline std::size_t use_string_view_hash(opentelemetry::nostd::string_view v)
{
  return std::hash<opentelemetry::nostd::string_view>{}(v);
}
}  // namespace verif_tu
