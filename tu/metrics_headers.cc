// Driver unit: header-only SDK metrics code named in the property anchors (parsed, never executed).
#include "opentelemetry/sdk/common/attribute_utils.h"
#include "opentelemetry/sdk/common/attributemap_hash.h"
#include "opentelemetry/sdk/instrumentationscope/scope_configurator.h"
#include "opentelemetry/sdk/metrics/aggregation/default_aggregation.h"
#include "opentelemetry/sdk/metrics/meter_config.h"
#include "opentelemetry/sdk/metrics/observer_result.h"
#include "opentelemetry/sdk/metrics/state/async_metric_storage.h"
#include "opentelemetry/sdk/metrics/state/attributes_hashmap.h"
#include "opentelemetry/sdk/metrics/state/filtered_ordered_attribute_map.h"
#include "opentelemetry/sdk/metrics/state/multi_metric_storage.h"
#include "opentelemetry/sdk/metrics/state/sync_metric_storage.h"
#include "opentelemetry/sdk/metrics/view/attributes_processor.h"
#include "opentelemetry/sdk/metrics/view/instrument_selector.h"
#include "opentelemetry/sdk/metrics/view/meter_selector.h"
#include "opentelemetry/sdk/metrics/view/predicate.h"
#include "opentelemetry/sdk/metrics/view/view.h"
#include "opentelemetry/sdk/metrics/view/view_registry.h"

template class opentelemetry::sdk::metrics::AttributesHashMapWithCustomHash<>;
template class opentelemetry::sdk::metrics::ObserverResultT<int64_t>;
template class opentelemetry::sdk::metrics::ObserverResultT<double>;
template class opentelemetry::sdk::instrumentationscope::ScopeConfigurator<opentelemetry::sdk::metrics::MeterConfig>;
