#include <iostream>
#include <thread>
#include <cerrno>
#include "opentelemetry/sdk/trace/batch_span_processor.h"
#include "opentelemetry/sdk/trace/batch_span_processor_options.h"
#include "opentelemetry/sdk/trace/multi_span_processor.h"
#include "opentelemetry/sdk/trace/span_data.h"
#include "opentelemetry/sdk/trace/tracer_provider.h"
#include "opentelemetry/sdk/trace/simple_processor.h"
#include "opentelemetry/sdk/trace/samplers/always_off.h"
#include "opentelemetry/sdk/trace/random_id_generator.h"
#include "opentelemetry/sdk/metrics/aggregation/histogram_aggregation.h"
#include "opentelemetry/sdk/metrics/instrument_metadata_validator.h"
#include "opentelemetry/sdk/common/env_variables.h"
#include "opentelemetry/trace/default_span.h"
#include "opentelemetry/trace/context.h"
using namespace opentelemetry;
namespace sdkt = opentelemetry::sdk::trace;
struct Exp : sdkt::SpanExporter {
  std::vector<size_t> *batches; bool slow=false;
  Exp(std::vector<size_t>*b):batches(b){}
  std::unique_ptr<sdkt::Recordable> MakeRecordable() noexcept override { return std::unique_ptr<sdkt::Recordable>(new sdkt::SpanData); }
  sdk::common::ExportResult Export(const nostd::span<std::unique_ptr<sdkt::Recordable>> &s) noexcept override { batches->push_back(s.size()); if(slow) std::this_thread::sleep_for(std::chrono::milliseconds(500)); return sdk::common::ExportResult::kSuccess; }
  bool ForceFlush(std::chrono::microseconds) noexcept override { return true; }
  bool Shutdown(std::chrono::microseconds) noexcept override { return true; }
};
struct FailProc : sdkt::SpanProcessor {
  std::unique_ptr<sdkt::Recordable> MakeRecordable() noexcept override { return std::unique_ptr<sdkt::Recordable>(new sdkt::SpanData); }
  void OnStart(sdkt::Recordable&, const trace::SpanContext&) noexcept override {}
  void OnEnd(std::unique_ptr<sdkt::Recordable>&&) noexcept override {}
  bool ForceFlush(std::chrono::microseconds) noexcept override { return false; }
  bool Shutdown(std::chrono::microseconds) noexcept override { return true; }
};
int main(){
  { // D1
    std::vector<size_t> batches; sdkt::BatchSpanProcessorOptions o; o.max_queue_size=64; o.max_export_batch_size=2; o.schedule_delay_millis=std::chrono::milliseconds(100000);
    sdkt::BatchSpanProcessor p(std::unique_ptr<sdkt::SpanExporter>(new Exp(&batches)), o);
    p.ForceFlush(std::chrono::seconds(5));
    for(int i=0;i<10;i++){ p.OnEnd(p.MakeRecordable()); }
    p.ForceFlush(std::chrono::seconds(5));
    std::cout<<"D1 batches (max_export_batch_size=2):"; for(auto b:batches) std::cout<<" "<<b; std::cout<<"\n";
    batches.clear();
    for(int i=0;i<31;i++){ p.OnEnd(p.MakeRecordable()); }  // < half queue: no wake... then one more to trigger wake by half-full
    for(int i=0;i<3;i++){ p.OnEnd(p.MakeRecordable()); }
    std::this_thread::sleep_for(std::chrono::milliseconds(300));
    std::cout<<"D1 later non-flush cycle batches:"; for(auto b:batches) std::cout<<" "<<b; std::cout<<"\n";
  }
  { // D2
    std::vector<std::unique_ptr<sdkt::SpanProcessor>> ps; ps.push_back(std::unique_ptr<sdkt::SpanProcessor>(new FailProc));
    sdkt::MultiSpanProcessor m(std::move(ps)); std::cout<<"D2 MultiSpanProcessor::ForceFlush with failing child -> "<<m.ForceFlush()<<"\n";
  }
  { // D3
    std::vector<size_t> batches;
    auto tp = std::make_shared<sdkt::TracerProvider>(std::unique_ptr<sdkt::SpanProcessor>(new sdkt::SimpleSpanProcessor(std::unique_ptr<sdkt::SpanExporter>(new Exp(&batches)))), sdk::resource::Resource::Create({}), std::unique_ptr<sdkt::Sampler>(new sdkt::AlwaysOffSampler));
    auto tr = tp->GetTracer("t");
    uint8_t tid[16]={1,2,3,4,5,6,7,8,9,10,11,12,13,14,15,16}; uint8_t sid[8]={1,2,3,4,5,6,7,8};
    trace::SpanContext parent(trace::TraceId(tid), trace::SpanId(sid), trace::TraceFlags(1), true);
    trace::StartSpanOptions so; so.parent = parent; auto s = tr->StartSpan("x", so);
    std::cout<<"D3 AlwaysOff + sampled remote parent: child IsSampled="<<s->GetContext().IsSampled()<<" IsRecording="<<s->IsRecording()<<"\n";
  }
  { // D6
    sdk::metrics::DoubleHistogramAggregation h(nullptr); h.Aggregate(0.0, {}); h.Aggregate(0.0, {});
    auto pt = nostd::get<sdk::metrics::HistogramPointData>(h.ToPoint());
    std::cout<<"D6 double histogram of {0,0}: max="<<nostd::get<double>(pt.max_)<<" min="<<nostd::get<double>(pt.min_)<<"\n";
  }
  { // D13
    sdk::metrics::InstrumentMetaDataValidator v; std::string n("ok\0!!bad name", 13);
    std::cout<<"D13 ValidateName(\"ok\\0!!bad name\") -> "<<v.ValidateName(nostd::string_view(n.data(), n.size()))<<"\n";
    std::string big = "abcdef"; std::cout<<"D13 ValidateName(view 'abc' of 'abcdef' then '!')... ";
    std::string m2="abc!def"; std::cout<<v.ValidateName(nostd::string_view(m2.data(),3))<<" (expected 1; reads past view -> 0?)\n";
  }
  { // D12
    setenv("X_DUR","99999999999999999999s",1); std::chrono::system_clock::duration d; bool ok=sdk::common::GetDurationEnvironmentVariable("X_DUR", d);
    std::cout<<"D12 duration 99999999999999999999s -> ok="<<ok<<" ns="<<d.count()<<"\n";
    setenv("X_U","42",1); errno=ERANGE; uint32_t u=7; bool ok2=sdk::common::GetUintEnvironmentVariable("X_U", u); std::cout<<"D12 uint '42' with stale errno -> ok="<<ok2<<" value="<<u<<"\n"; errno=0;
  }
  return 0; }
