// Triage replay (not a check): BatchSpanProcessor::Export computes
//   buffer_.size() >= max ? max : buffer_.size()
// with two separate reads of the queue size. Producers adding between the reads make the second
// read exceed max_export_batch_size. No ForceFlush is used anywhere (so D1 is not involved).
#include <atomic>
#include <chrono>
#include <cstdio>
#include <thread>
#include <vector>
#include "opentelemetry/sdk/trace/batch_span_processor.h"
#include "opentelemetry/sdk/trace/batch_span_processor_options.h"
#include "opentelemetry/sdk/trace/exporter.h"
#include "opentelemetry/sdk/trace/span_data.h"
#include "opentelemetry/sdk/common/global_log_handler.h"

using namespace opentelemetry::sdk::trace;
static std::atomic<size_t> g_max{0};
static std::atomic<size_t> g_batches{0}, g_over{0};
static size_t kMax = 4;
class Exp : public SpanExporter
{
public:
  std::unique_ptr<Recordable> MakeRecordable() noexcept override { return std::unique_ptr<Recordable>(new SpanData); }
  opentelemetry::sdk::common::ExportResult Export(
      const opentelemetry::nostd::span<std::unique_ptr<Recordable>> &spans) noexcept override
  {
    size_t n = spans.size();
    ++g_batches;
    if (n > kMax) ++g_over;
    size_t m = g_max.load();
    while (n > m && !g_max.compare_exchange_weak(m, n)) {}
    for (auto &s : spans) s.reset();
    return opentelemetry::sdk::common::ExportResult::kSuccess;
  }
  bool ForceFlush(std::chrono::microseconds) noexcept override { return true; }
  bool Shutdown(std::chrono::microseconds) noexcept override { return true; }
};
int main()
{
  opentelemetry::sdk::common::internal_log::GlobalLogHandler::SetLogLevel(opentelemetry::sdk::common::internal_log::LogLevel::None);
  BatchSpanProcessorOptions o;
  o.max_queue_size        = 4096;
  o.max_export_batch_size = kMax;
  o.schedule_delay_millis = std::chrono::milliseconds(1);
  BatchSpanProcessor p(std::unique_ptr<SpanExporter>(new Exp), o);
  std::atomic<bool> stop{false};
  std::vector<std::thread> ts;
  for (int t = 0; t < 12; ++t)
    ts.emplace_back([&] {
      while (!stop.load())
      {
        for (int k = 0; k < 6; ++k)
          p.OnEnd(std::unique_ptr<Recordable>(new SpanData));
        std::this_thread::sleep_for(std::chrono::microseconds(30));
      }
    });
  std::this_thread::sleep_for(std::chrono::seconds(20));
  stop = true;
  for (auto &t : ts) t.join();
  p.Shutdown();
  std::printf("batches=%zu largest=%zu over_limit=%zu (max_export_batch_size=%zu)\n", g_batches.load(), g_max.load(), g_over.load(), kMax);
  return g_over.load() ? 1 : 0;
}
