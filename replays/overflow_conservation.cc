#include <iostream>
#include "opentelemetry/sdk/metrics/meter_provider.h"
#include "opentelemetry/sdk/metrics/metric_reader.h"
using namespace opentelemetry;
namespace m = opentelemetry::sdk::metrics;
struct Reader : m::MetricReader {
  m::AggregationTemporality t; Reader(m::AggregationTemporality t):t(t){}
  m::AggregationTemporality GetAggregationTemporality(m::InstrumentType) const noexcept override { return t; }
  bool OnForceFlush(std::chrono::microseconds) noexcept override { return true; }
  bool OnShutDown(std::chrono::microseconds) noexcept override { return true; }
};
static void total(const char*tag, Reader &r){
  r.Collect([&](m::ResourceMetrics &rm){
    for(auto &sm: rm.scope_metric_data_) for(auto &md: sm.metric_data_){ long tot=0; for(auto &p: md.point_data_attr_){ tot+=nostd::get<int64_t>(nostd::get<m::SumPointData>(p.point_data).value_);} 
      std::cout<<tag<<" series="<<md.point_data_attr_.size()<<" total="<<tot<<"\n"; }
    return true; });
}
int main(){
  for (auto t : {m::AggregationTemporality::kCumulative, m::AggregationTemporality::kDelta}) {
    m::MeterProvider mp; auto r = std::make_shared<Reader>(t); mp.AddMetricReader(r);
    auto meter = mp.GetMeter("m"); auto c = meter->CreateUInt64Counter("c");
    long rec=0;
    for(int cyc=0;cyc<2;cyc++){ for(int i=0;i<2500;i++){ std::map<std::string,std::string> a{{"k",std::to_string(i+cyc*2500)}}; c->Add(1, common::KeyValueIterableView<std::map<std::string,std::string>>(a)); rec++; }
      std::cout<<(t==m::AggregationTemporality::kCumulative?"cumulative":"delta")<<" recorded so far="<<rec<<" -> "; total("", *r); }
  }
}
