// Triage replay (not a check): a storage configured with cardinality limit 3 and a *cumulative* reader.
// Each cycle records 6 fresh attribute sets. After the fix of SyncMetricStorage::Collect every delta table
// stays within 3 series, but TemporalMetricStorage merges the deltas into a table created with the default
// limit (2000), so the cumulative report grows past the configured limit (C08.R3, buildMetrics).
#include <iostream>
#include <map>
#include "opentelemetry/sdk/metrics/meter_context.h"
#include "opentelemetry/sdk/metrics/metric_reader.h"
#include "opentelemetry/sdk/metrics/state/metric_collector.h"
#include "opentelemetry/sdk/metrics/state/sync_metric_storage.h"
using namespace opentelemetry;
namespace m = opentelemetry::sdk::metrics;
struct Reader : m::MetricReader
{
  m::AggregationTemporality t;
  Reader(m::AggregationTemporality t) : t(t) {}
  m::AggregationTemporality GetAggregationTemporality(m::InstrumentType) const noexcept override { return t; }
  bool OnForceFlush(std::chrono::microseconds) noexcept override { return true; }
  bool OnShutDown(std::chrono::microseconds) noexcept override { return true; }
};
int main()
{
  m::InstrumentDescriptor d{"x", "", "", m::InstrumentType::kCounter, m::InstrumentValueType::kLong};
  m::DefaultAttributesProcessor ap;
  m::SyncMetricStorage st(d, m::AggregationType::kSum, &ap, nullptr, 3);
  m::MeterContext ctx;
  auto reader = std::make_shared<Reader>(m::AggregationTemporality::kCumulative);
  std::shared_ptr<m::CollectorHandle> col(new m::MetricCollector(&ctx, reader));
  std::vector<std::shared_ptr<m::CollectorHandle>> cols{col};
  size_t worst = 0;
  for (int cyc = 0; cyc < 3; cyc++)
  {
    for (int i = 0; i < 6; i++)
    {
      std::map<std::string, std::string> a{{"k", std::to_string(cyc * 10 + i)}};
      st.RecordLong(1, common::KeyValueIterableView<std::map<std::string, std::string>>(a), context::Context{});
    }
    st.Collect(col.get(), cols, std::chrono::system_clock::now(), std::chrono::system_clock::now(), [&](m::MetricData md) {
      int64_t total = 0;
      for (auto &p : md.point_data_attr_)
        total += nostd::get<int64_t>(nostd::get<m::SumPointData>(p.point_data).value_);
      std::cout << "limit=3 cumulative cycle" << cyc << " series=" << md.point_data_attr_.size() << " total=" << total << "\n";
      worst = std::max(worst, md.point_data_attr_.size());
      return true;
    });
  }
  return worst > 3 ? 1 : 0;
}
