#include <iostream>
#include <thread>
#include "opentelemetry/sdk/trace/batch_span_processor.h"
#include "opentelemetry/sdk/trace/batch_span_processor_options.h"
#include "opentelemetry/sdk/trace/span_data.h"
using namespace opentelemetry;
namespace sdkt = opentelemetry::sdk::trace;
struct Exp : sdkt::SpanExporter {
  std::vector<size_t> *batches; 
  Exp(std::vector<size_t>*b):batches(b){}
  std::unique_ptr<sdkt::Recordable> MakeRecordable() noexcept override { return std::unique_ptr<sdkt::Recordable>(new sdkt::SpanData); }
  sdk::common::ExportResult Export(const nostd::span<std::unique_ptr<sdkt::Recordable>> &s) noexcept override { batches->push_back(s.size()); std::this_thread::sleep_for(std::chrono::milliseconds(200)); return sdk::common::ExportResult::kSuccess; }
  bool ForceFlush(std::chrono::microseconds) noexcept override { return true; }
  bool Shutdown(std::chrono::microseconds) noexcept override { return true; }
};
int main(int argc,char**argv){
    bool flush_first = argc>1;
    std::vector<size_t> batches; sdkt::BatchSpanProcessorOptions o; o.max_queue_size=64; o.max_export_batch_size=2; o.schedule_delay_millis=std::chrono::milliseconds(100000);
    sdkt::BatchSpanProcessor p(std::unique_ptr<sdkt::SpanExporter>(new Exp(&batches)), o);
    if(flush_first) p.ForceFlush(std::chrono::seconds(5));
    for(int i=0;i<12;i++){ p.OnEnd(p.MakeRecordable()); }
    std::this_thread::sleep_for(std::chrono::milliseconds(2500));
    std::cout<<(flush_first?"after an earlier ForceFlush":"no ForceFlush ever")<<": batches (max_export_batch_size=2):"; for(auto b:batches) std::cout<<" "<<b; std::cout<<"\n";
    return 0; }
