#include <iostream>
#include <thread>
#include "opentelemetry/sdk/logs/logger_provider.h"
#include "opentelemetry/sdk/logs/logger_context.h"
#include "opentelemetry/sdk/logs/logger_config.h"
#include "opentelemetry/sdk/logs/batch_log_record_processor.h"
#include "opentelemetry/sdk/logs/read_write_log_record.h"
#include "opentelemetry/sdk/logs/exporter.h"
#include "opentelemetry/sdk/instrumentationscope/scope_configurator.h"
using namespace opentelemetry;
namespace l = opentelemetry::sdk::logs;
struct Exp : l::LogRecordExporter {
  std::unique_ptr<l::Recordable> MakeRecordable() noexcept override { return std::unique_ptr<l::Recordable>(new l::ReadWriteLogRecord); }
  sdk::common::ExportResult Export(const nostd::span<std::unique_ptr<l::Recordable>> &s) noexcept override {
    for(auto &r: s){ auto *rec = static_cast<l::ReadWriteLogRecord*>(r.get()); auto &b = rec->GetBody(); if(nostd::holds_alternative<nostd::string_view>(b)){ auto sv=nostd::get<nostd::string_view>(b); std::cout<<"D9 exported body="<<std::string(sv.data(), sv.size())<<"\n"; } }
    return sdk::common::ExportResult::kSuccess; }
  bool ForceFlush(std::chrono::microseconds) noexcept override { return true; }
  bool Shutdown(std::chrono::microseconds) noexcept override { return true; }
};
int main(int argc, char**){
  if(argc>1){ // D9
    l::BatchLogRecordProcessorOptions o; o.schedule_delay_millis=std::chrono::milliseconds(100000);
    auto lp = std::make_shared<l::LoggerProvider>(std::unique_ptr<l::LogRecordProcessor>(new l::BatchLogRecordProcessor(std::unique_ptr<l::LogRecordExporter>(new Exp), o)));
    auto lg = lp->GetLogger("a","lib");
    { std::string *body = new std::string("this body lives in caller storage that dies after Emit returns"); lg->EmitLogRecord(opentelemetry::logs::Severity::kInfo, nostd::string_view(*body)); delete body; }
    lp->ForceFlush();
  } else { // D16
    auto cfg = sdk::instrumentationscope::ScopeConfigurator<l::LoggerConfig>::Builder(l::LoggerConfig::Default()).AddConditionNameEquals("off", l::LoggerConfig::Disabled()).Build();
    std::vector<std::unique_ptr<l::LogRecordProcessor>> ps;
    auto ctx = std::unique_ptr<l::LoggerContext>(new l::LoggerContext(std::move(ps), sdk::resource::Resource::Create({}), std::make_unique<sdk::instrumentationscope::ScopeConfigurator<l::LoggerConfig>>(cfg)));
    l::LoggerProvider lp(std::move(ctx));
    auto a = lp.GetLogger("x","off"); auto b = lp.GetLogger("x","off"); auto c=lp.GetLogger("y","on"); auto d=lp.GetLogger("y","on");
    std::cout<<"D16 disabled scope: same logger? "<<(a.get()==b.get())<<"; enabled scope: same logger? "<<(c.get()==d.get())<<"\n";
  }
  return 0; }
