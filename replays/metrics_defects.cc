#include <iostream>
#include "opentelemetry/sdk/metrics/meter_provider.h"
#include "opentelemetry/sdk/metrics/meter_context.h"
#include "opentelemetry/sdk/metrics/metric_reader.h"
#include "opentelemetry/sdk/metrics/view/view_registry.h"
#include "opentelemetry/sdk/metrics/view/instrument_selector.h"
#include "opentelemetry/sdk/metrics/view/meter_selector.h"
#include "opentelemetry/sdk/metrics/view/view.h"
#include "opentelemetry/sdk/metrics/state/sync_metric_storage.h"
#include "opentelemetry/sdk/metrics/state/metric_collector.h"
#include "opentelemetry/sdk/metrics/export/metric_producer.h"
using namespace opentelemetry;
namespace m = opentelemetry::sdk::metrics;
struct Reader : m::MetricReader {
  m::AggregationTemporality t; Reader(m::AggregationTemporality t):t(t){}
  m::AggregationTemporality GetAggregationTemporality(m::InstrumentType) const noexcept override { return t; }
  bool OnForceFlush(std::chrono::microseconds) noexcept override { return true; }
  bool OnShutDown(std::chrono::microseconds) noexcept override { return true; }
};
static void dump(const char*tag, Reader &r){
  r.Collect([&](m::ResourceMetrics &rm){
    for(auto &sm: rm.scope_metric_data_) for(auto &md: sm.metric_data_){
      std::cout<<tag<<" stream="<<md.instrument_descriptor.name_<<" start-sdkstart? points="<<md.point_data_attr_.size()<<" start="<<md.start_ts.time_since_epoch().count()%100000000000<<" end="<<md.end_ts.time_since_epoch().count()%100000000000<<" values:";
      for(auto &p: md.point_data_attr_){ if(nostd::holds_alternative<m::SumPointData>(p.point_data)){ auto &s=nostd::get<m::SumPointData>(p.point_data); std::cout<<" "<<nostd::get<int64_t>(s.value_);} }
      std::cout<<"\n"; }
    return true; });
}
int main(){
  { // D4: single delta reader
    m::MeterProvider mp; auto r = std::make_shared<Reader>(m::AggregationTemporality::kDelta); mp.AddMetricReader(r);
    auto meter = mp.GetMeter("m"); auto c = meter->CreateUInt64Counter("c1"); c->Add(1); dump("D4 cycle1", *r); c->Add(2); dump("D4 cycle2", *r); c->Add(3); dump("D4 cycle3", *r);
  }
  { // D5b: two handles same instrument
    m::MeterProvider mp; auto r = std::make_shared<Reader>(m::AggregationTemporality::kCumulative); mp.AddMetricReader(r);
    auto meter = mp.GetMeter("m"); auto c1 = meter->CreateUInt64Counter("dup"); auto c2 = meter->CreateUInt64Counter("dup"); c1->Add(5); c2->Add(7); dump("D5 two handles (5 and 7 recorded)", *r);
  }
  { // D5a: two views on one instrument
    m::MeterProvider mp; auto r = std::make_shared<Reader>(m::AggregationTemporality::kCumulative); mp.AddMetricReader(r);
    for (auto nm : {"view_a","view_b"}) mp.AddView(std::unique_ptr<m::InstrumentSelector>(new m::InstrumentSelector(m::InstrumentType::kCounter,"c","")), std::unique_ptr<m::MeterSelector>(new m::MeterSelector("m","","")), std::unique_ptr<m::View>(new m::View(nm)));
    auto meter = mp.GetMeter("m"); auto c = meter->CreateUInt64Counter("c"); c->Add(1); dump("D5 two views view_a,view_b", *r);
  }
  { // D7: limit after first collect
    m::InstrumentDescriptor d{"x","","",m::InstrumentType::kCounter,m::InstrumentValueType::kLong};
    m::DefaultAttributesProcessor ap; m::SyncMetricStorage st(d, m::AggregationType::kSum, &ap, nullptr, 3);
    m::MeterContext ctx; auto reader = std::make_shared<Reader>(m::AggregationTemporality::kDelta); 
    std::shared_ptr<m::CollectorHandle> col(new m::MetricCollector(&ctx, reader)); std::vector<std::shared_ptr<m::CollectorHandle>> cols{col};
    for(int cyc=0;cyc<2;cyc++){
      for(int i=0;i<6;i++){ std::map<std::string,std::string> a{{"k",std::to_string(i)}}; st.RecordLong(1, common::KeyValueIterableView<std::map<std::string,std::string>>(a), context::Context{}); }
      st.Collect(col.get(), cols, std::chrono::system_clock::now(), std::chrono::system_clock::now(), [&](m::MetricData md){ std::cout<<"D7 limit=3 cycle"<<cyc<<" series="<<md.point_data_attr_.size()<<"\n"; return true; });
    }
  }
  return 0; }
