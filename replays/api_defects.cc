// Replays for header-only API defects: D8 (flags upper), D10 (TraceState dup), D11 (B3 multi), D14 (shared_ptr self-assign), D13 (validator)
#include <iostream>
#include <cstdlib>
#include <map>
#include "opentelemetry/trace/trace_flags.h"
#include "opentelemetry/trace/trace_state.h"
#include "opentelemetry/trace/propagation/b3_propagator.h"
#include "opentelemetry/trace/propagation/http_trace_context.h"
#include "opentelemetry/trace/default_span.h"
#include "opentelemetry/trace/context.h"
#include "opentelemetry/nostd/shared_ptr.h"
using namespace opentelemetry;
struct Carrier : context::propagation::TextMapCarrier {
  std::map<std::string,std::string> h;
  nostd::string_view Get(nostd::string_view k) const noexcept override { auto it=h.find(std::string(k)); return it==h.end()?"":nostd::string_view(it->second);} 
  void Set(nostd::string_view k, nostd::string_view v) noexcept override { h[std::string(k)]=std::string(v);} };
struct Obj { static int live; Obj(){live++;} ~Obj(){live--;} };
int Obj::live=0;
int main(){
  char b[2]; trace::TraceFlags(0xAB).ToLowerBase16(b); std::cout<<"D8 flags 0xAB -> "<<b[0]<<b[1]<<"\n";
  auto ts = trace::TraceState::FromHeader("a=1,b=2"); auto ts2 = ts->Set("a","9"); std::cout<<"D10 Set existing: "<<ts2->ToHeader()<<"\n";
  uint8_t tid[16]={1,2,3,4,5,6,7,8,9,10,11,12,13,14,15,16}; uint8_t sid[8]={1,2,3,4,5,6,7,8};
  trace::SpanContext sc(trace::TraceId(tid), trace::SpanId(sid), trace::TraceFlags(0x03), false);
  context::Context ctx; nostd::shared_ptr<trace::Span> sp{new trace::DefaultSpan(sc)}; auto c2 = trace::SetSpan(ctx, sp);
  Carrier car; trace::propagation::B3PropagatorMultiHeader p; p.Inject(car, c2);
  std::cout<<"D11 X-B3-Sampled="<<car.h["X-B3-Sampled"]<<"\n"; context::Context e; auto c3=p.Extract(car,e);
  std::cout<<"D11 extracted sampled="<<trace::GetSpan(c3)->GetContext().IsSampled()<<" (orig 1)\n";
  Carrier c4; trace::propagation::HttpTraceContext h; trace::SpanContext sc2(trace::TraceId(tid), trace::SpanId(sid), trace::TraceFlags(0xAB), false);
  nostd::shared_ptr<trace::Span> sp2{new trace::DefaultSpan(sc2)}; auto c5=trace::SetSpan(ctx, sp2); h.Inject(c4,c5); std::cout<<"D8 traceparent="<<c4.h["traceparent"]<<"\n";
  std::cout.flush(); if(getenv("D14")) { nostd::shared_ptr<Obj> p1(new Obj); auto &r=p1; p1 = r; std::cout<<"D14 live after self-assign="<<Obj::live<<" get="<<(void*)p1.get()<<"\n"; }
  return 0; }
