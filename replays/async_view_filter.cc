// D20: the attribute filter of a view is applied to synchronous instruments only. A view with an attribute-key filter that matches
// an observable (asynchronous) instrument leaves every attribute of the observation in the exported series key.
#include <iostream>
#include "opentelemetry/sdk/metrics/meter_provider.h"
#include "opentelemetry/sdk/metrics/metric_reader.h"
#include "opentelemetry/sdk/metrics/view/attributes_processor.h"
#include "opentelemetry/sdk/metrics/view/instrument_selector.h"
#include "opentelemetry/sdk/metrics/view/meter_selector.h"
#include "opentelemetry/sdk/metrics/view/view.h"
#include "opentelemetry/sdk/metrics/export/metric_producer.h"
using namespace opentelemetry;
namespace m = opentelemetry::sdk::metrics;
struct Reader : m::MetricReader {
  m::AggregationTemporality GetAggregationTemporality(m::InstrumentType) const noexcept override { return m::AggregationTemporality::kCumulative; }
  bool OnForceFlush(std::chrono::microseconds) noexcept override { return true; }
  bool OnShutDown(std::chrono::microseconds) noexcept override { return true; }
};
static void dump(Reader &r){
  r.Collect([&](m::ResourceMetrics &rm){
    for(auto &sm: rm.scope_metric_data_) for(auto &md: sm.metric_data_){
      std::cout<<"stream="<<md.instrument_descriptor.name_<<" series="<<md.point_data_attr_.size()<<":";
      for(auto &p: md.point_data_attr_){ std::cout<<" {"; for(auto &kv: p.attributes) std::cout<<kv.first<<" "; std::cout<<"}"; }
      std::cout<<"\n"; }
    return true; });
}
static void cb(opentelemetry::metrics::ObserverResult res, void *){
  auto r = nostd::get<nostd::shared_ptr<opentelemetry::metrics::ObserverResultT<int64_t>>>(res);
  r->Observe(1, {{"keep","a"},{"drop","x"}});
  r->Observe(2, {{"keep","a"},{"drop","y"}});
}
int main(){
  m::MeterProvider mp; auto r = std::make_shared<Reader>(); mp.AddMetricReader(r);
  for (auto ty : {m::InstrumentType::kCounter, m::InstrumentType::kObservableCounter}) {
    std::unordered_map<std::string,bool> allowed{{"keep",true}};
    std::unique_ptr<m::AttributesProcessor> ap(new m::FilteringAttributesProcessor(allowed));
    mp.AddView(std::unique_ptr<m::InstrumentSelector>(new m::InstrumentSelector(ty, ty==m::InstrumentType::kCounter?"sync":"async", "")),
               std::unique_ptr<m::MeterSelector>(new m::MeterSelector("m","","")),
               std::unique_ptr<m::View>(new m::View("", "", "", m::AggregationType::kDefault, nullptr, std::move(ap))));
  }
  auto meter = mp.GetMeter("m");
  auto c = meter->CreateUInt64Counter("sync");
  c->Add(1, {{"keep","a"},{"drop","x"}}); c->Add(2, {{"keep","a"},{"drop","y"}});
  auto o = meter->CreateInt64ObservableCounter("async"); o->AddCallback(cb, nullptr);
  dump(*r);   // expected for both streams: one series {keep}
  return 0; }
