// Triage replay (not a check): nostd::shared_ptr assignment from a source that lives inside the object
// the target solely owns (p = p->next). std::shared_ptr handles this; the identity guard alone does not.
#include <cstdio>
#include "opentelemetry/nostd/shared_ptr.h"
namespace nostd = opentelemetry::nostd;
struct Node
{
  int v = 0;
  nostd::shared_ptr<Node> next;
};
int main()
{
  nostd::shared_ptr<Node> p(new Node);
  p->v    = 1;
  p->next = nostd::shared_ptr<Node>(new Node);
  p->next->v = 2;
  p = p->next;  // source is a member of the node that p releases
  std::printf("v=%d\n", p->v);
  nostd::shared_ptr<Node> q(new Node);
  q->next = nostd::shared_ptr<Node>(new Node);
  q->next->v = 3;
  q = std::move(q->next);
  std::printf("v=%d\n", q->v);
  return (p->v == 2 && q->v == 3) ? 0 : 1;
}
