// Replay for D21: EmitLogRecord(EventId{id}) - an EventId built without a name (a documented constructor) - makes the logs API
// build nostd::string_view from a null char pointer (strlen(nullptr)).
#include <cstdio>
#include <memory>
#include "opentelemetry/logs/event_id.h"
#include "opentelemetry/logs/logger_type_traits.h"
#include "opentelemetry/sdk/logs/read_write_log_record.h"
namespace logs = opentelemetry::logs;
int main()
{
  opentelemetry::sdk::logs::ReadWriteLogRecord rec;
  logs::EventId with_name{7, "named"};
  logs::detail::LogRecordSetterTrait<logs::EventId>::Set(&rec, with_name);
  std::printf("named event: id=%ld name=%.*s\n", (long)rec.GetEventId(), (int)rec.GetEventName().size(), rec.GetEventName().data());
  logs::EventId no_name{42};
  std::printf("emitting EventId{42} without a name...\n");
  std::fflush(stdout);
  logs::detail::LogRecordSetterTrait<logs::EventId>::Set(&rec, no_name);
  std::printf("unnamed event: id=%ld name.size=%zu\n", (long)rec.GetEventId(), rec.GetEventName().size());
  return rec.GetEventId() == 42 && rec.GetEventName().empty() ? 0 : 1;
}
