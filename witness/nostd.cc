// Type-level witnesses for C20 (compiled with -fsyntax-only; every static_assert is one obligation).
// A violating change to the nostd types makes this unit fail to compile.
#include <memory>
#include <string>
#include <type_traits>
#include "opentelemetry/common/attribute_value.h"
#include "opentelemetry/nostd/function_ref.h"
#include "opentelemetry/nostd/shared_ptr.h"
#include "opentelemetry/nostd/span.h"
#include "opentelemetry/nostd/string_view.h"
#include "opentelemetry/nostd/unique_ptr.h"
#include "opentelemetry/nostd/variant.h"

namespace nostd = opentelemetry::nostd;
struct W
{
  int x;
};
// W01-W04: unique ownership cannot be duplicated
static_assert(!std::is_copy_constructible<nostd::unique_ptr<W>>::value, "W01 unique_ptr must not be copy constructible");
static_assert(!std::is_copy_assignable<nostd::unique_ptr<W>>::value, "W02 unique_ptr must not be copy assignable");
static_assert(std::is_nothrow_move_constructible<nostd::unique_ptr<W>>::value, "W03 unique_ptr must be nothrow move constructible");
static_assert(std::is_move_assignable<nostd::unique_ptr<W>>::value, "W04 unique_ptr must be move assignable");
// W05-W08: shared ownership is copyable and movable without throwing
static_assert(std::is_nothrow_copy_constructible<nostd::shared_ptr<W>>::value, "W05 shared_ptr must be nothrow copy constructible");
static_assert(std::is_nothrow_move_constructible<nostd::shared_ptr<W>>::value, "W06 shared_ptr must be nothrow move constructible");
static_assert(std::is_copy_assignable<nostd::shared_ptr<W>>::value, "W07 shared_ptr must be copy assignable");
static_assert(std::is_constructible<nostd::shared_ptr<W>, nostd::unique_ptr<W> &&>::value, "W08 shared_ptr must take over a unique_ptr");
// W09-W12: views are trivially copyable value types
static_assert(std::is_trivially_copyable<nostd::string_view>::value, "W09 string_view must be trivially copyable");
static_assert(std::is_trivially_copyable<nostd::span<int>>::value, "W10 span must be trivially copyable");
static_assert(std::is_trivially_copyable<nostd::span<const char, 4>>::value, "W11 fixed-extent span must be trivially copyable");
static_assert(sizeof(nostd::span<const char, 4>) == sizeof(void *), "W12 fixed-extent span stores only the pointer");
// W13-W15: conversions that must (not) exist
static_assert(std::is_convertible<const char *, nostd::string_view>::value, "W13 string_view from a C string");
static_assert(std::is_convertible<const std::string &, nostd::string_view>::value, "W14 string_view from std::string");
static_assert(!std::is_convertible<nostd::string_view, std::string>::value, "W15 string_view -> std::string must be explicit");
// W16-W19: the AttributeValue variant holds exactly the alternatives the converters expect, in ABI order
static_assert(nostd::variant_size<opentelemetry::common::AttributeValue>::value == 16, "W16 AttributeValue has 16 alternatives");
static_assert(std::is_same<nostd::variant_alternative_t<0, opentelemetry::common::AttributeValue>, bool>::value, "W17 alternative 0 is bool");
static_assert(std::is_same<nostd::variant_alternative_t<5, opentelemetry::common::AttributeValue>, const char *>::value, "W18 alternative 5 is const char*");
static_assert(std::is_same<nostd::variant_alternative_t<6, opentelemetry::common::AttributeValue>, nostd::string_view>::value, "W19 alternative 6 is string_view");
// W20: a unique_ptr<Derived> converts to unique_ptr<Base> but not the other way
struct WB
{
  virtual ~WB() = default;
};
struct WD : WB
{};
static_assert(std::is_constructible<nostd::unique_ptr<WB>, nostd::unique_ptr<WD> &&>::value, "W20 unique_ptr derived-to-base conversion");
static_assert(!std::is_constructible<nostd::unique_ptr<WD>, nostd::unique_ptr<WB> &&>::value, "W21 no base-to-derived conversion");
// W22: function_ref is a non-owning, trivially copyable reference
static_assert(std::is_trivially_copyable<nostd::function_ref<int(int)>>::value, "W22 function_ref must be trivially copyable");
// W23/W24: copying a function_ref from a non-const lvalue (or rvalue) selects the trivial copy/move constructor, not the
// converting template (which would bind the copy to the source handle instead of the callable)
static_assert(std::is_trivially_constructible<nostd::function_ref<int(int)>, nostd::function_ref<int(int)> &>::value,
              "W23 copying a non-const lvalue function_ref must use the copy constructor, not the converting template");
static_assert(std::is_trivially_constructible<nostd::function_ref<int(int)>, nostd::function_ref<int(int)> &&>::value &&
                  std::is_trivially_constructible<nostd::function_ref<int(int)>, const nostd::function_ref<int(int)> &>::value,
              "W24 copying a const lvalue / rvalue function_ref must use the copy/move constructor");
