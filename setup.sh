#!/bin/sh
# Build the libTooling extractor (offline; clang 14 / llvm 14 from the image).
set -e
cd "$(dirname "$0")"
exec make -s -C tools/otel-ir
